#include "ops_types.hpp"
using namespace smooth;
using BunF = Bundle<SE2f, Eigen::Vector3f, SO3f>;
using SE23f = SE_K_3<float, 2>;
REG_C16(SO3f, SO3f);
REG_C16(SE2f, SE2f);
REG_C16(SE3f, SE3f);
REG_C16(Galileif, Galileif);
REG_C16(SE23f, SE23f);
REG_C16(BunF, BunF);
REG_C16(SO2f, SO2f);
REG_C16(C1f, C1f);
