// C16 engine — declarations shared by the uninstrumented core (main.cpp) and the instrumented
// per-type TUs (ops_*.cpp).
#pragma once
#include <cstddef>
#include <cstdint>

namespace c16 {

constexpr int kMaxOutBytes = 8192;
constexpr int kRegions = 3;  // 0: main element, 1: tenant A, 2: tenant B (all live in one arena)
constexpr int kMaxParts = 10;

enum CallId : int {
  // mutating, through Map<G>
  K_SET_IDENTITY = 0,
  K_ASSIGN_FROM = 1,
  K_MUL_ASSIGN = 2,
  K_PLUS_ASSIGN = 3,
  K_COEFFS_WRITE_ONE = 4,
  K_DATA_WRITE_ONE = 5,
  K_COEFFS_ASSIGN_ALL = 6,
  K_COPY_VIEW_SET_IDENTITY = 7,
  K_MAP_ASSIGN_MAP = 8,
  K_PART_ASSIGN = 9,
  K_PART_RESET = 10,
  K_PART_UPDATE = 11,
  K_PART_RAW_WRITE = 12,
  K_CONSTRUCT_INTO = 13,  // value constructed from parts / other storage, assigned into the view
  // non-mutating, through Map<G> or Map<const G>
  K_INVERSE = 14,
  K_LOG = 15,
  K_AD = 16,
  K_MATRIX = 17,
  K_COMPOSE = 18,
  K_RMINUS = 19,
  K_RPLUS = 20,
  K_ISAPPROX = 21,
  K_TO_VALUE = 22,
  K_CAST = 23,
  K_PART_READ = 24,
  K_ACTION = 25,
  K_COEFFS_READ = 26,
  K_PART_CONST_OPS = 27,
  // value categories: sources that are rvalue (temporary / moved-from) views. A view never owns the
  // memory it shows, so "moving from" one must leave that memory untouched.
  K_ASSIGN_FROM_TEMP_VIEW = 28,   // mutating: m = Map<G>(src)            (writes the destination only)
  K_VALUE_FROM_TEMP_VIEW = 29,    // non-mutating: value = Map<G>(region); value = std::move(view)
  K_PART_TO_VALUE = 30,           // non-mutating: part value = m.part()   (rvalue sub-part view of a mutable view)
  K_PART_FROM_TEMP_VIEW = 31,     // mutating: m.part() = Map<P>(src part) (writes the destination part only)
  K_MAP_MOVE_ASSIGN = 32,         // mutating: m = std::move(Map<G> over src): copies coefficients, source untouched
  K_SET_RANDOM = 33,              // mutating: setRandom() (contents are not compared: process-wide generator)
  K_HELPERS = 34,                 // non-mutating: type-specific const helpers (angles, isometry, project / lift, ...)
  K_MOVED_VIEW_WRITE = 35,        // mutating: Map<G> m2(std::move(m)); m2 = value   (a moved-to view shows the same memory)
  K_RVALUE_VIEW_OPS = 36,         // non-mutating: operators and const members applied to RVALUE views
                                  //   Map<G>(p) * g, std::move(view) + a, m.part() * x, m.part().inverse() ... write nothing
  K_DIFF_WRT_VIEW = 37,           // mutating: diff::dr<1|2, Numerical>(f, wrt(view)) perturbs its argument in place and steps back:
                                  //   results and the coefficients left behind equal those for a value object
  K_MINIMIZE_WRT_VIEW = 38,       // mutating: minimize(f, wrt(view)): the view ends where a value object ends
  K_FREE_FUNCTIONS = 39,          // non-mutating: the free functions of the concept layer with views as arguments
                                  //   composition(v, s, s...), composition(s, v, s), rplus(v, a), log(v), Ad(v), inverse(v), dof(v)
  K_NCALLS = 40
};

inline const char* const kCallNames[K_NCALLS] = {
  "setIdentity", "assign_from", "mul_assign", "plus_assign", "coeffs_write_one", "data_write_one", "coeffs_assign_all",
  "copy_view_setIdentity", "map_assign_map", "part_assign", "part_reset", "part_update", "part_raw_write", "construct_into",
  "inverse", "log", "Ad", "matrix", "compose", "rminus", "rplus", "isApprox", "to_value", "cast", "part_read", "action",
  "coeffs_read", "part_const_ops", "assign_from_temp_view", "value_from_temp_view", "part_to_value", "part_from_temp_view", "map_move_assign", "setRandom", "helpers", "moved_view_write", "rvalue_view_ops", "diff_wrt_view", "minimize_wrt_view", "free_functions"};

inline bool call_mutates(int id) { return id <= K_CONSTRUCT_INTO || id == K_ASSIGN_FROM_TEMP_VIEW || id == K_PART_FROM_TEMP_VIEW ||
         id == K_MAP_MOVE_ASSIGN || id == K_SET_RANDOM || id == K_MOVED_VIEW_WRITE || id == K_DIFF_WRT_VIEW ||
         id == K_MINIMIZE_WRT_VIEW; }
inline bool call_uses_part(int id) {
  return (id >= K_PART_ASSIGN && id <= K_PART_RAW_WRITE) || id == K_PART_READ || id == K_PART_CONST_OPS || id == K_PART_TO_VALUE ||
         id == K_PART_FROM_TEMP_VIEW || id == K_RVALUE_VIEW_OPS;
}

struct Call {
  int client;
  int id;
  int region;      // viewed region
  int view;        // 0: Map<G>, 1: Map<const G>   (mutating calls always use 0)
  int src_region;  // source element of binary operations (may equal `region`: identical regions)
  int src_kind;    // 0: value object, 1: Map<G>, 2: Map<const G>
  int part;        // sub-part index (modulo the type's number of parts)
  int idx;         // coefficient index for raw writes (modulo the range length)
  int stale;       // 1: use the long-lived view created at the start of the history
  uint64_t salt;   // private inputs of the call
};

struct Ctx {
  const Call* call;
  void* arena[kRegions];   // start of each element in the simulated storage
  void* mirror[kRegions];  // the same positions in the reference model's byte array
  void* views;             // long-lived views (type specific), created by make_views
  // results of the call made through the view, and of the same call made on value objects
  int out_bytes, exp_bytes;
  int out_scalar_bytes;  // scalar width of the results (4 or 8; 1 = raw bytes / integers: exact)
  int verbatim_out;      // 1: results must be bit-identical, 0: <= 4 ulp per coefficient
  alignas(16) unsigned char out[kMaxOutBytes];
  alignas(16) unsigned char exp[kMaxOutBytes];
  // what the call is allowed to write: scalars [wlo, whi) of region wregion (-1: nothing)
  int wregion, wlo, whi;
  int verbatim_region;  // 1: the written range must equal the model bit for bit
  int applicable;       // 0: call does not exist for this type (e.g. no sub-parts)
};

struct TypeDef {
  const char* name;
  int repsize;
  int dof;
  int scalar_bytes;
  int nparts;
  const char* part_names[kMaxParts];
  int part_off[kMaxParts];
  int part_len[kMaxParts];
  void (*run)(Ctx&);
  void (*make_elem)(void* dst, uint64_t salt);  // writes RepSize scalars of a valid element
  void* (*make_views)(void* const arena[kRegions]);
  void (*free_views)(void*);
};

void reg_type(const TypeDef* t);
size_t n_types();
const TypeDef* type_at(size_t i);
const TypeDef* find_type(const char* name);

uint64_t mix64(uint64_t x);
struct In {
  uint64_t s;
  uint64_t u64();
  double unit();
  double sym(double a);
};

}  // namespace c16
