#include "ops_types.hpp"
using SE23d = smooth::SE_K_3<double, 2>;
REG_C16(smooth::SE3d, SE3d);
REG_C16(smooth::Galileid, Galileid);
REG_C16(SE23d, SE23d);
