// C16 engine — instrumented per-type implementation of every call, made (1) through a Map view
// over the simulated storage and (2) on the reference model: value objects for computed results,
// plain byte copies for everything the property says is verbatim.  Offsets of sub-parts in the
// model come from the documented memory layouts (Layout<G>), never from the accessors under test.
#pragma once
#include <Eigen/Core>
#include <Eigen/Geometry>
#include <cstring>
#include <limits>
#include <tuple>
#include <type_traits>

#include "smooth/bundle.hpp"
#include "smooth/diff.hpp"
#include "smooth/optim.hpp"
#include "smooth/c1.hpp"
#include "smooth/galilei.hpp"
#include "smooth/se2.hpp"
#include "smooth/se3.hpp"
#include "smooth/se_k_3.hpp"
#include "smooth/so2.hpp"
#include "smooth/so3.hpp"

#include "c16.hpp"

namespace c16t {
using namespace c16;

template<class P>
constexpr bool is_lie = requires { typename P::Tangent; } && !std::is_base_of_v<Eigen::MatrixBase<P>, P>;

template<class P>
constexpr int rep_of() {
  if constexpr (is_lie<P>) return P::RepSize;
  else return P::SizeAtCompileTime;
}

// ---- documented layouts ---------------------------------------------------------------------------
struct PartDesc {
  const char* name;
  int off;
  int len;
};

template<class G>
struct Layout {
  static constexpr int n = 0;
  static constexpr PartDesc parts[1] = {{"", 0, 0}};
  static constexpr int action_dim = 0;
};

template<class S>
struct Layout<smooth::SO2<S>> {
  static constexpr int n = 0;
  static constexpr PartDesc parts[1] = {{"", 0, 0}};
  static constexpr int action_dim = 2;
};
template<class S>
struct Layout<smooth::C1<S>> {
  static constexpr int n = 0;
  static constexpr PartDesc parts[1] = {{"", 0, 0}};
  static constexpr int action_dim = 2;
};
template<class S>
struct Layout<smooth::SO3<S>> {
  // [qx qy qz qw]
  static constexpr int n = 1;
  static constexpr PartDesc parts[1] = {{"quat", 0, 4}};
  static constexpr int action_dim = 3;
  template<int I, class V>
  static auto get(V&& v) {
    return std::forward<V>(v).quat();
  }
};
template<class S>
struct Layout<smooth::SE2<S>> {
  // [x y qz qw]
  static constexpr int n = 2;
  static constexpr PartDesc parts[2] = {{"r2", 0, 2}, {"so2", 2, 2}};
  static constexpr int action_dim = 2;
  template<int I, class V>
  static auto get(V&& v) {
    if constexpr (I == 0) return std::forward<V>(v).r2();
    else return std::forward<V>(v).so2();
  }
};
template<class S>
struct Layout<smooth::SE3<S>> {
  // [x y z qx qy qz qw]
  static constexpr int n = 2;
  static constexpr PartDesc parts[2] = {{"r3", 0, 3}, {"so3", 3, 4}};
  static constexpr int action_dim = 3;
  template<int I, class V>
  static auto get(V&& v) {
    if constexpr (I == 0) return std::forward<V>(v).r3();
    else return std::forward<V>(v).so3();
  }
};
template<class S>
struct Layout<smooth::Galilei<S>> {
  // [vx vy vz px py pz t qx qy qz qw]
  static constexpr int n = 4;
  static constexpr PartDesc parts[4] = {{"r3_v", 0, 3}, {"r3_p", 3, 3}, {"r1_t", 6, 1}, {"so3", 7, 4}};
  static constexpr int action_dim = 4;
  template<int I, class V>
  static auto get(V&& v) {
    if constexpr (I == 0) return std::forward<V>(v).r3_v();
    else if constexpr (I == 1) return std::forward<V>(v).r3_p();
    else if constexpr (I == 2) return std::forward<V>(v).r1_t();
    else return std::forward<V>(v).so3();
  }
};
template<class S, int K>
struct Layout<smooth::SE_K_3<S, K>> {
  // [p0 (3) ... p(K-1) (3) qx qy qz qw]; the last entry is the run-time accessor r3(K-1)
  static constexpr int n = K + 2;
  static constexpr auto make_parts() {
    std::array<PartDesc, (std::size_t)(K + 2)> p{};
    constexpr const char* names[] = {"r3<0>", "r3<1>", "r3<2>", "r3<3>", "r3<4>"};
    for (int i = 0; i < K; ++i) p[(std::size_t)i] = PartDesc{names[i], 3 * i, 3};
    p[(std::size_t)K] = PartDesc{"so3", 3 * K, 4};
    p[(std::size_t)K + 1] = PartDesc{"r3(K-1)", 3 * (K - 1), 3};
    return p;
  }
  static constexpr auto parts = make_parts();
  static constexpr int action_dim = 0;
  template<int I, class V>
  static auto get(V&& v) {
    if constexpr (I < K) return std::forward<V>(v).template r3<I>();
    else if constexpr (I == K) return std::forward<V>(v).so3();
    else return std::forward<V>(v).r3(K - 1);
  }
};
template<class... Gs>
struct Layout<smooth::Bundle<Gs...>> {
  static constexpr int n = sizeof...(Gs);
  static constexpr std::array<int, sizeof...(Gs)> lens = {rep_of<Gs>()...};
  static constexpr auto make_parts() {
    std::array<PartDesc, sizeof...(Gs)> p{};
    int off = 0;
    constexpr const char* names[] = {"part<0>", "part<1>", "part<2>", "part<3>", "part<4>", "part<5>", "part<6>", "part<7>"};
    for (std::size_t i = 0; i < sizeof...(Gs); ++i) {
      p[i] = PartDesc{names[i], off, lens[i]};
      off += lens[i];
    }
    return p;
  }
  static constexpr auto parts = make_parts();
  static constexpr int action_dim = 0;
  template<int I, class V>
  static auto get(V&& v) {
    return std::forward<V>(v).template part<I>();
  }
};

// ---- helpers ---------------------------------------------------------------------------------------
template<class S, int N>
inline Eigen::Matrix<S, N, 1> rand_vec(In& in, double scale) {
  Eigen::Matrix<S, N, 1> v;
  for (int i = 0; i < N; ++i) v(i) = static_cast<S>(in.sym(scale));
  return v;
}

// a valid element of Lie type P from a salt
template<class P>
inline P rand_elem(In& in) {
  using S = typename P::Scalar;
  const auto a = rand_vec<S, P::Dof>(in, 1.0);
  const auto b = rand_vec<S, P::Dof>(in, 0.3);
  return P::exp(a) * P::exp(b);
}

template<class D>
inline void emit(unsigned char* buf, int& n, const Eigen::MatrixBase<D>& m) {
  const typename D::PlainObject p = m;
  const int bytes = (int)(sizeof(typename D::Scalar) * (size_t)p.size());
  if (n + bytes > kMaxOutBytes) return;
  std::memcpy(buf + n, p.data(), (size_t)bytes);
  n += bytes;
}
template<class S>
inline void emit_scalar(unsigned char* buf, int& n, S v) {
  if (n + (int)sizeof(S) > kMaxOutBytes) return;
  std::memcpy(buf + n, &v, sizeof(S));
  n += (int)sizeof(S);
}

template<class G>
struct Views {
  smooth::Map<G> m0, m1, m2;
  smooth::Map<const G> c0, c1, c2;
  using S = typename G::Scalar;
  explicit Views(void* const a[kRegions])
      : m0(static_cast<S*>(a[0])), m1(static_cast<S*>(a[1])), m2(static_cast<S*>(a[2])), c0(static_cast<const S*>(a[0])),
        c1(static_cast<const S*>(a[1])), c2(static_cast<const S*>(a[2])) {}
  smooth::Map<G>& m(int r) { return r == 0 ? m0 : r == 1 ? m1 : m2; }
  smooth::Map<const G>& c(int r) { return r == 0 ? c0 : r == 1 ? c1 : c2; }
};

template<class G>
struct T16 {
  using S = typename G::Scalar;
  using Other = std::conditional_t<std::is_same_v<S, double>, float, double>;
  static constexpr int N = G::RepSize;
  using L = Layout<G>;
  using Coef = Eigen::Matrix<S, N, 1>;

  static S* ar(Ctx& c, int r) { return static_cast<S*>(c.arena[r]); }
  static S* mi(Ctx& c, int r) { return static_cast<S*>(c.mirror[r]); }

  // value object holding the coefficients stored at p (the reference model's reading of a region)
  static G value_at(const S* p) {
    G g;
    for (int i = 0; i < N; ++i) g.coeffs()(i) = p[i];
    return g;
  }
  static void store(S* p, const G& g) {
    for (int i = 0; i < N; ++i) p[i] = g.coeffs()(i);
  }

  template<class F>
  static void with_mut(Ctx& c, F&& f) {
    const int r = c.call->region;
    if (c.call->stale) {
      f(static_cast<Views<G>*>(c.views)->m(r));
    } else {
      smooth::Map<G> m(ar(c, r));
      f(m);
    }
  }
  template<class F>
  static void with_view(Ctx& c, F&& f) {
    const int r = c.call->region;
    if (c.call->view == 0) {
      with_mut(c, f);
    } else if (c.call->stale) {
      f(static_cast<Views<G>*>(c.views)->c(r));
    } else {
      smooth::Map<const G> m(static_cast<const S*>(ar(c, r)));
      f(m);
    }
  }
  template<class F>
  static void with_src(Ctx& c, F&& f) {
    const int r = c.call->src_region;
    switch (c.call->src_kind) {
      case 0: {
        const G v = value_at(ar(c, r));
        f(v);
        break;
      }
      case 1: {
        smooth::Map<G> m(ar(c, r));
        f(m);
        break;
      }
      default: {
        smooth::Map<const G> m(static_cast<const S*>(ar(c, r)));
        f(m);
        break;
      }
    }
  }

  // identity as the model sees it: computed on a value whose prior coefficients are a fixed junk
  // pattern, so that a setIdentity which forgets a coefficient shows up as a difference between the
  // model (junk left) and the storage (old content left)
  template<class P>
  static P model_identity() {
    P id;
    for (int i = 0; i < P::RepSize; ++i) id.coeffs()(i) = static_cast<typename P::Scalar>(7.25 + i);
    id.setIdentity();
    return id;
  }

  static void allow(Ctx& c, int lo, int hi, bool verbatim) {
    c.wregion = c.call->region;
    c.wlo = lo;
    c.whi = hi;
    c.verbatim_region = verbatim;
  }

  template<class V, class F>
  static void with_part(V& v, int part, F&& f, bool from_temporary = false) {
    if constexpr (L::n > 0) {
      [&]<std::size_t... I>(std::index_sequence<I...>) {
        (void)((part == (int)I
                  ? ((from_temporary ? f(L::template get<(int)I>(std::decay_t<V>(v)), std::integral_constant<int, (int)I>{})
                                     : f(L::template get<(int)I>(v), std::integral_constant<int, (int)I>{})),
                     true)
                  : false) ||
               ...);
      }(std::make_index_sequence<(std::size_t)L::n>{});
    }
  }

  // what kind of thing a sub-part view is
  template<class PV>
  static constexpr int part_kind() {
    using P = std::decay_t<PV>;
    if constexpr (requires(const P& p) { p.log(); p.inverse(); }) return 0;              // Lie view
    else if constexpr (requires(const P& p) { p.toRotationMatrix(); p.coeffs(); }) return 2;  // quaternion map
    else return 1;                                                                          // dense vector map
  }

  // the plain Lie type viewed by a Lie sub-part view
  template<class PV>
  using LiePlain = typename std::decay_t<PV>::PlainObject;

  static void run(Ctx& c) {
    const Call& k = *c.call;
    In in{k.salt};
    c.applicable = 1;
    c.out_bytes = c.exp_bytes = 0;
    c.out_scalar_bytes = (int)sizeof(S);
    c.verbatim_out = 0;
    c.wregion = -1;
    c.wlo = c.whi = 0;
    c.verbatim_region = 1;
    const int r = k.region;
    const int sr = k.src_region;

    switch (k.id) {
      case K_SET_IDENTITY: {
        allow(c, 0, N, false);
        store(mi(c, r), model_identity<G>());
        with_mut(c, [](auto& m) { m.setIdentity(); });
        break;
      }
      case K_ASSIGN_FROM: {
        allow(c, 0, N, true);
        std::memmove(mi(c, r), mi(c, sr), sizeof(S) * N);
        with_mut(c, [&](auto& m) { with_src(c, [&](const auto& s) { m = s; }); });
        break;
      }
      case K_MUL_ASSIGN: {
        allow(c, 0, N, false);
        // partially overlapping operands: the right operand is a view that starts 1..6 scalars before
        // or after the viewed element (it reads into the neighbouring gap). A value object would read
        // both operands completely before storing anything; the viewed element must end up the same.
        if (sr == r && k.src_kind != 0 && (k.idx & 3) == 3) {
          const int span = N - 1 < 6 ? N - 1 : 6;
          if (span < 1) {
            c.applicable = 0;
            break;
          }
          int shift = 1 + ((k.idx >> 3) % span);
          if (k.idx & 4) shift = -shift;
          const G res = value_at(mi(c, r)) * value_at(mi(c, r) + shift);
          store(mi(c, r), res);
          const S* sp = ar(c, r) + shift;
          with_mut(c, [&](auto& m) {
            if (k.src_kind == 1) {
              smooth::Map<G> s(const_cast<S*>(sp));
              m *= s;
            } else {
              smooth::Map<const G> s(sp);
              m *= s;
            }
          });
          break;
        }
        const G res = value_at(mi(c, r)) * value_at(mi(c, sr));
        store(mi(c, r), res);
        with_mut(c, [&](auto& m) { with_src(c, [&](const auto& s) { m *= s; }); });
        break;
      }
      case K_PLUS_ASSIGN: {
        allow(c, 0, N, false);
        const auto a = rand_vec<S, G::Dof>(in, (k.idx & 1) ? 1e-7 : 0.8);
        const G res = value_at(mi(c, r)) + a;
        store(mi(c, r), res);
        with_mut(c, [&](auto& m) { m += a; });
        break;
      }
      case K_DIFF_WRT_VIEW:
      case K_MINIMIZE_WRT_VIEW: {
        // a view handed to the generic layer (wrt(view)): numerical differentiation perturbs the
        // argument in place and steps back, the solver updates it in place - exactly as for a value
        if constexpr (!std::is_same_v<S, double>) {
          c.applicable = 0;
        } else {
          G v = value_at(mi(c, r));
          const G sv = value_at(mi(c, sr));
          if (!v.coeffs().allFinite() || !sv.coeffs().allFinite() || !(v.coeffs().cwiseAbs().maxCoeff() < 1e100) ||
              !(sv.coeffs().cwiseAbs().maxCoeff() < 1e100)) {
            c.applicable = 0;  // the solver and the finite differences are not defined on non-finite contents
          } else {
            using smooth::diff::Type;
            allow(c, 0, N, false);
            const auto fres = [&sv](const auto& x) -> Eigen::Matrix<S, G::Dof, 1> { return x - sv; };
            const auto fsq = [&sv](const auto& x) -> S { return (x - sv).squaredNorm(); };
            if (k.id == K_MINIMIZE_WRT_VIEW) {
              // one options object per solve: it carries the trust-region strategy's state
              {
                smooth::MinimizeOptions opts;
                opts.max_iter = 3;
                smooth::minimize<Type::Numerical>(fres, smooth::wrt(v), opts);
              }
              store(mi(c, r), v);
              with_mut(c, [&](auto& m) {
                smooth::MinimizeOptions opts;
                opts.max_iter = 3;
                smooth::minimize<Type::Numerical>(fres, smooth::wrt(m), opts);
              });
            } else if (k.idx & 1) {
              const auto [f0, J0, H0] = smooth::diff::dr<2, Type::Numerical>(fsq, smooth::wrt(v));
              emit_scalar(c.exp, c.exp_bytes, f0);
              emit(c.exp, c.exp_bytes, J0);
              emit(c.exp, c.exp_bytes, H0);
              store(mi(c, r), v);
              with_mut(c, [&](auto& m) {
                const auto [f1, J1, H1] = smooth::diff::dr<2, Type::Numerical>(fsq, smooth::wrt(m));
                emit_scalar(c.out, c.out_bytes, f1);
                emit(c.out, c.out_bytes, J1);
                emit(c.out, c.out_bytes, H1);
              });
            } else {
              const auto [f0, J0] = smooth::diff::dr<1, Type::Numerical>(fres, smooth::wrt(v));
              emit(c.exp, c.exp_bytes, f0);
              emit(c.exp, c.exp_bytes, J0);
              store(mi(c, r), v);
              with_mut(c, [&](auto& m) {
                const auto [f1, J1] = smooth::diff::dr<1, Type::Numerical>(fres, smooth::wrt(m));
                emit(c.out, c.out_bytes, f1);
                emit(c.out, c.out_bytes, J1);
              });
            }
          }
        }
        break;
      }
      case K_COEFFS_WRITE_ONE: {
        const int i = k.idx % N;
        allow(c, i, i + 1, true);
        const S x = static_cast<S>(in.sym(2.0));
        mi(c, r)[i] = x;
        with_mut(c, [&](auto& m) { m.coeffs()(i) = x; });
        break;
      }
      case K_DATA_WRITE_ONE: {
        const int i = k.idx % N;
        allow(c, i, i + 1, true);
        const S x = static_cast<S>(in.sym(2.0));
        mi(c, r)[i] = x;
        with_mut(c, [&](auto& m) { m.data()[i] = x; });
        break;
      }
      case K_COEFFS_ASSIGN_ALL: {
        allow(c, 0, N, true);
        const G e = rand_elem<G>(in);
        store(mi(c, r), e);
        const Coef v = e.coeffs();
        with_mut(c, [&](auto& m) { m.coeffs() = v; });
        break;
      }
      case K_COPY_VIEW_SET_IDENTITY: {
        allow(c, 0, N, false);
        store(mi(c, r), model_identity<G>());
        with_mut(c, [](auto& m) {
          smooth::Map<G> m2(m);
          m2.setIdentity();
        });
        break;
      }
      case K_MAP_ASSIGN_MAP: {
        allow(c, 0, N, true);
        std::memmove(mi(c, r), mi(c, sr), sizeof(S) * N);
        with_mut(c, [&](auto& m) {
          smooth::Map<G> s(ar(c, sr));
          m = s;  // same-type copy assignment of the view class: copies coefficients, does not rebind
        });
        break;
      }
      case K_PART_ASSIGN:
      case K_PART_RESET:
      case K_PART_UPDATE:
      case K_PART_RAW_WRITE: {
        if constexpr (L::n == 0) {
          c.applicable = 0;
        } else {
          const int part = k.part % L::n;
          const int off = L::parts[(std::size_t)part].off, len = L::parts[(std::size_t)part].len;
          S* mp = mi(c, r) + off;
          with_mut(c, [&](auto& m) {
            // a sub-sub-part through a chain of temporaries: m.part<i>().so3() = ..., Map<G>(p).so3().quat() = ...
            bool chained = false;
            if (k.id == K_PART_ASSIGN && (k.idx & 8)) {
              with_part(m, part, [&](auto pv, auto idx) {
                using PV = decltype(pv);
                constexpr int I = decltype(idx)::value;
                if constexpr (part_kind<PV>() == 0) {
                  if constexpr (requires { pv.so3(); pv.r3(); }) {
                    const smooth::SO3<S> e = rand_elem<smooth::SO3<S>>(in);
                    allow(c, off + 3, off + 7, true);
                    for (int i = 0; i < 4; ++i) mp[3 + i] = e.coeffs()(i);
                    L::template get<I>(m).so3() = e;
                    chained = true;
                  } else if constexpr (requires { pv.so2(); pv.r2(); }) {
                    const smooth::SO2<S> e = rand_elem<smooth::SO2<S>>(in);
                    allow(c, off + 2, off + 4, true);
                    for (int i = 0; i < 2; ++i) mp[2 + i] = e.coeffs()(i);
                    L::template get<I>(m).so2() = e;
                    chained = true;
                  } else if constexpr (requires { pv.template part<0>(); }) {
                    // member that is itself a Bundle: m.part<i>().part<0>() = value
                    using Inner = LiePlain<PV>;
                    using P0 = typename Inner::template PartType<0>;
                    constexpr int l0 = rep_of<P0>();
                    allow(c, off, off + l0, true);
                    if constexpr (is_lie<P0>) {
                      const P0 e = rand_elem<P0>(in);
                      for (int i = 0; i < l0; ++i) mp[i] = e.coeffs()(i);
                      L::template get<I>(m).template part<0>() = e;
                    } else {
                      const P0 e = rand_vec<S, l0>(in, 2.0);
                      for (int i = 0; i < l0; ++i) mp[i] = e(i);
                      L::template get<I>(m).template part<0>() = e;
                    }
                    chained = true;
                  }
                }
              });
            }
            if (chained) return;
            with_part(m, part, [&](auto pv, auto) {
              using PV = decltype(pv);
              constexpr int kind = part_kind<PV>();
              if constexpr (kind == 0) {
                using P = LiePlain<PV>;
                static_assert(P::RepSize > 0);
                // accessor chains: the quaternion of an SO3 sub-part (m.so3().quat())
                constexpr bool has_quat = requires { pv.quat(); };
                if (k.id == K_PART_ASSIGN) {
                  allow(c, off, off + len, true);
                  const P e = rand_elem<P>(in);
                  for (int i = 0; i < len; ++i) mp[i] = e.coeffs()(i);
                  if constexpr (has_quat) {
                    if (k.idx & 32) {
                      const Eigen::Quaternion<S> q(e.coeffs()(3), e.coeffs()(0), e.coeffs()(1), e.coeffs()(2));
                      pv.quat() = q;
                    } else {
                      pv = e;
                    }
                  } else {
                    pv = e;
                  }
                } else if (k.id == K_PART_UPDATE && has_quat && (k.idx & 32)) {
                  if constexpr (has_quat) {
                    allow(c, off, off + len, true);
                    for (int i = 0; i < len; ++i) mp[i] = mp[i] * S(-1);
                    pv.quat().coeffs() *= S(-1);
                  }
                } else if (k.id == K_PART_RESET) {
                  allow(c, off, off + len, false);
                  const P id = model_identity<P>();
                  for (int i = 0; i < len; ++i) mp[i] = id.coeffs()(i);
                  pv.setIdentity();
                } else if (k.id == K_PART_UPDATE) {
                  allow(c, off, off + len, false);
                  const P e = rand_elem<P>(in);
                  P cur;
                  for (int i = 0; i < len; ++i) cur.coeffs()(i) = mp[i];
                  const P res = cur * e;
                  for (int i = 0; i < len; ++i) mp[i] = res.coeffs()(i);
                  pv *= e;
                } else {
                  const int i = k.idx % len;
                  allow(c, off + i, off + i + 1, true);
                  const S x = static_cast<S>(in.sym(2.0));
                  mp[i] = x;
                  if (k.idx & 64) pv.data()[i] = x;
                  else pv.coeffs()(i) = x;
                }
              } else if constexpr (kind == 1) {
                using Vec = Eigen::Matrix<S, std::decay_t<PV>::SizeAtCompileTime, 1>;
                if (k.id == K_PART_ASSIGN) {
                  allow(c, off, off + len, true);
                  const Vec v = rand_vec<S, Vec::SizeAtCompileTime>(in, 3.0);
                  for (int i = 0; i < len; ++i) mp[i] = v(i);
                  pv = v;
                } else if (k.id == K_PART_RESET) {
                  allow(c, off, off + len, true);
                  for (int i = 0; i < len; ++i) mp[i] = S(0);
                  pv.setZero();
                } else if (k.id == K_PART_UPDATE) {
                  allow(c, off, off + len, false);
                  const Vec v = rand_vec<S, Vec::SizeAtCompileTime>(in, 3.0);
                  for (int i = 0; i < len; ++i) mp[i] = mp[i] + v(i);
                  pv += v;
                } else {
                  const int i = k.idx % len;
                  allow(c, off + i, off + i + 1, true);
                  const S x = static_cast<S>(in.sym(2.0));
                  mp[i] = x;
                  pv(i) = x;
                }
              } else {
                // quaternion map over [qx qy qz qw]
                if (k.id == K_PART_ASSIGN) {
                  allow(c, off, off + len, true);
                  const smooth::SO3<S> e = rand_elem<smooth::SO3<S>>(in);
                  const Eigen::Quaternion<S> q(e.coeffs()(3), e.coeffs()(0), e.coeffs()(1), e.coeffs()(2));
                  for (int i = 0; i < 4; ++i) mp[i] = q.coeffs()(i);
                  pv = q;
                } else if (k.id == K_PART_RESET) {
                  allow(c, off, off + len, true);
                  mp[0] = mp[1] = mp[2] = S(0);
                  mp[3] = S(1);
                  pv.setIdentity();
                } else if (k.id == K_PART_UPDATE) {
                  allow(c, off, off + len, true);
                  for (int i = 0; i < 4; ++i) mp[i] = mp[i] * S(-1);
                  pv.coeffs() *= S(-1);
                } else {
                  const int i = k.idx % len;
                  allow(c, off + i, off + i + 1, true);
                  const S x = static_cast<S>(in.sym(1.0));
                  mp[i] = x;
                  pv.coeffs()(i) = x;
                }
              }
            }, (k.idx & 16) != 0);
          });
        }
        break;
      }
      case K_CONSTRUCT_INTO: {
        // a value built from the sub-parts of the source (read through the source's storage kind),
        // assigned into the view
        if constexpr (L::n >= 2 && requires { typename G::Tangent; }) {
          bool done = false;
          bool swapped = false;
          // the model needs the source as it was before the call (source and destination may be the same region)
          Coef src_before = Eigen::Map<const Coef>(mi(c, sr));
          with_src(c, [&](const auto& s) {
            if constexpr (requires { G(s.so3(), s.r3()); }) {
              const G tmp(s.so3(), s.r3());
              with_mut(c, [&](auto& m) { m = tmp; });
              done = true;
            } else if constexpr (requires { G(s.so2(), s.r2()); }) {
              const G tmp(s.so2(), s.r2());
              with_mut(c, [&](auto& m) { m = tmp; });
              done = true;
            } else if constexpr (requires { G(s.so3(), s.r3_v(), s.r3_p(), 0.0); }) {
              const G tmp(s.so3(), s.r3_v(), s.r3_p(), static_cast<double>(s.r1_t().x()));
              with_mut(c, [&](auto& m) { m = tmp; });
              done = true;
            } else if constexpr (requires { G(s.so3(), s.template r3<0>(), s.template r3<1>()); }) {
              const G tmp(s.so3(), s.template r3<0>(), s.template r3<1>());
              with_mut(c, [&](auto& m) { m = tmp; });
              done = true;
            } else if constexpr (requires { G(s.so3(), s.template r3<0>(), s.template r3<1>(), s.template r3<2>()); }) {
              const G tmp(s.so3(), s.template r3<0>(), s.template r3<1>(), s.template r3<2>());
              with_mut(c, [&](auto& m) { m = tmp; });
              done = true;
            } else if constexpr (requires { s.template part<0>(); }) {
              // Bundle(parts...) from the parts of the source, read through the source's storage kind;
              // when the first two members have the same type they are also passed in swapped order
              constexpr bool can_swap = L::n >= 2 && std::is_same_v<typename G::template PartType<0>, typename G::template PartType<1>>;
              if constexpr (can_swap) {
                if (k.idx & 1) {
                  [&]<std::size_t... I>(std::index_sequence<I...>) {
                    const G tmp(s.template part<1>(), s.template part<0>(), s.template part<I + 2>()...);
                    with_mut(c, [&](auto& m) { m = tmp; });
                  }(std::make_index_sequence<(std::size_t)L::n - 2>{});
                  swapped = true;
                  done = true;
                }
              }
              if (!done) {
                [&]<std::size_t... I>(std::index_sequence<I...>) {
                  const G tmp(s.template part<I>()...);
                  with_mut(c, [&](auto& m) { m = tmp; });
                }(std::make_index_sequence<(std::size_t)L::n>{});
                done = true;
              }
            }
          });
          if (done) {
            allow(c, 0, N, true);
            if (swapped) {
              // members 0 and 1 have the same type, hence the same length: exchange their sub-ranges
              const int l0 = L::parts[0].len;
              for (int i = 0; i < l0; ++i) std::swap(src_before(i), src_before(l0 + i));
            }
            for (int i = 0; i < N; ++i) mi(c, r)[i] = src_before(i);
          } else {
            c.applicable = 0;
          }
        } else {
          c.applicable = 0;
        }
        break;
      }

      // ---------------- non-mutating ----------------
      case K_INVERSE: {
        emit(c.exp, c.exp_bytes, value_at(mi(c, r)).inverse().coeffs());
        with_view(c, [&](const auto& v) { emit(c.out, c.out_bytes, v.inverse().coeffs()); });
        break;
      }
      case K_LOG: {
        emit(c.exp, c.exp_bytes, value_at(mi(c, r)).log());
        with_view(c, [&](const auto& v) { emit(c.out, c.out_bytes, v.log()); });
        break;
      }
      case K_AD: {
        emit(c.exp, c.exp_bytes, value_at(mi(c, r)).Ad());
        with_view(c, [&](const auto& v) { emit(c.out, c.out_bytes, v.Ad()); });
        break;
      }
      case K_MATRIX: {
        emit(c.exp, c.exp_bytes, value_at(mi(c, r)).matrix());
        with_view(c, [&](const auto& v) { emit(c.out, c.out_bytes, v.matrix()); });
        break;
      }
      case K_COMPOSE: {
        emit(c.exp, c.exp_bytes, (value_at(mi(c, r)) * value_at(mi(c, sr))).coeffs());
        with_view(c, [&](const auto& v) { with_src(c, [&](const auto& s) { emit(c.out, c.out_bytes, (v * s).coeffs()); }); });
        break;
      }
      case K_RMINUS: {
        emit(c.exp, c.exp_bytes, value_at(mi(c, r)) - value_at(mi(c, sr)));
        with_view(c, [&](const auto& v) { with_src(c, [&](const auto& s) { emit(c.out, c.out_bytes, v - s); }); });
        break;
      }
      case K_RPLUS: {
        const auto a = rand_vec<S, G::Dof>(in, 0.7);
        emit(c.exp, c.exp_bytes, (value_at(mi(c, r)) + a).coeffs());
        with_view(c, [&](const auto& v) { emit(c.out, c.out_bytes, (v + a).coeffs()); });
        break;
      }
      case K_ISAPPROX: {
        c.out_scalar_bytes = 1;
        c.verbatim_out = 1;
        const unsigned char e1 = value_at(mi(c, r)).isApprox(value_at(mi(c, sr))), e2 = value_at(mi(c, r)).isApprox(value_at(mi(c, r)));
        emit_scalar(c.exp, c.exp_bytes, e1);
        emit_scalar(c.exp, c.exp_bytes, e2);
        with_view(c, [&](const auto& v) {
          with_src(c, [&](const auto& s) {
            emit_scalar(c.out, c.out_bytes, (unsigned char)v.isApprox(s));
            emit_scalar(c.out, c.out_bytes, (unsigned char)v.isApprox(v));
          });
        });
        break;
      }
      case K_TO_VALUE: {
        c.verbatim_out = 1;
        const Coef e = Eigen::Map<const Coef>(mi(c, r));
        emit(c.exp, c.exp_bytes, e);
        emit(c.exp, c.exp_bytes, e);
        with_view(c, [&](const auto& v) {
          const G g1(v);
          G g2;
          g2 = v;
          emit(c.out, c.out_bytes, g1.coeffs());
          emit(c.out, c.out_bytes, g2.coeffs());
        });
        break;
      }
      case K_CAST: {
        c.verbatim_out = 1;
        c.out_scalar_bytes = (int)sizeof(Other);
        Eigen::Matrix<Other, N, 1> e;
        for (int i = 0; i < N; ++i) e(i) = static_cast<Other>(mi(c, r)[i]);
        emit(c.exp, c.exp_bytes, e);
        with_view(c, [&](const auto& v) { emit(c.out, c.out_bytes, v.template cast<Other>().coeffs()); });
        break;
      }
      case K_PART_READ:
      case K_PART_CONST_OPS: {
        if constexpr (L::n == 0) {
          c.applicable = 0;
        } else {
          const int part = k.part % L::n;
          const int off = L::parts[(std::size_t)part].off, len = L::parts[(std::size_t)part].len;
          const S* mp = mi(c, r) + off;
          c.verbatim_out = k.id == K_PART_READ;
          with_view(c, [&](const auto& v) {
            with_part(v, part, [&](auto pv, auto) {
              using PV = decltype(pv);
              constexpr int kind = part_kind<PV>();
              if constexpr (kind == 0) {
                using P = LiePlain<PV>;
                P mv;
                for (int i = 0; i < len; ++i) mv.coeffs()(i) = mp[i];
                if (k.id == K_PART_READ) {
                  emit(c.exp, c.exp_bytes, mv.coeffs());
                  const P got(pv);
                  emit(c.out, c.out_bytes, got.coeffs());
                } else {
                  emit(c.exp, c.exp_bytes, mv.inverse().coeffs());
                  emit(c.exp, c.exp_bytes, mv.log());
                  emit(c.exp, c.exp_bytes, mv.matrix());
                  emit(c.out, c.out_bytes, pv.inverse().coeffs());
                  emit(c.out, c.out_bytes, pv.log());
                  emit(c.out, c.out_bytes, pv.matrix());
                }
              } else if constexpr (kind == 1) {
                using Vec = Eigen::Matrix<S, std::decay_t<PV>::SizeAtCompileTime, 1>;
                Vec mv;
                for (int i = 0; i < len; ++i) mv(i) = mp[i];
                if (k.id == K_PART_READ) {
                  emit(c.exp, c.exp_bytes, mv);
                  const Vec got = pv;
                  emit(c.out, c.out_bytes, got);
                } else {
                  emit_scalar(c.exp, c.exp_bytes, mv.squaredNorm());
                  emit(c.exp, c.exp_bytes, (mv * S(2)).eval());
                  emit_scalar(c.out, c.out_bytes, pv.squaredNorm());
                  emit(c.out, c.out_bytes, (pv * S(2)).eval());
                }
              } else {
                Eigen::Quaternion<S> mq(mp[3], mp[0], mp[1], mp[2]);
                if (k.id == K_PART_READ) {
                  emit(c.exp, c.exp_bytes, mq.coeffs());
                  emit(c.out, c.out_bytes, pv.coeffs());
                } else {
                  emit(c.exp, c.exp_bytes, mq.toRotationMatrix());
                  emit(c.out, c.out_bytes, pv.toRotationMatrix());
                }
              }
            });
          });
        }
        break;
      }
      case K_ACTION: {
        if constexpr (L::action_dim == 0) {
          c.applicable = 0;
        } else {
          const auto x = rand_vec<S, L::action_dim>(in, 2.0);
          emit(c.exp, c.exp_bytes, value_at(mi(c, r)) * x);
          with_view(c, [&](const auto& v) { emit(c.out, c.out_bytes, v * x); });
          if constexpr (requires(const G& g) { g.dr_action(x); }) {
            emit(c.exp, c.exp_bytes, value_at(mi(c, r)).dr_action(x));
            with_view(c, [&](const auto& v) { emit(c.out, c.out_bytes, v.dr_action(x)); });
          }
        }
        break;
      }
      case K_COEFFS_READ: {
        c.verbatim_out = 1;
        const Coef e = Eigen::Map<const Coef>(mi(c, r));
        emit(c.exp, c.exp_bytes, e);
        emit(c.exp, c.exp_bytes, e);
        with_view(c, [&](const auto& v) {
          const Coef a = v.coeffs();
          Coef b;
          for (int i = 0; i < N; ++i) b(i) = v.data()[i];
          emit(c.out, c.out_bytes, a);
          emit(c.out, c.out_bytes, b);
        });
        break;
      }
      case K_ASSIGN_FROM_TEMP_VIEW: {
        allow(c, 0, N, true);
        std::memmove(mi(c, r), mi(c, sr), sizeof(S) * N);
        with_mut(c, [&](auto& m) {
          if (k.src_kind == 2) m = smooth::Map<const G>(static_cast<const S*>(ar(c, sr)));
          else m = smooth::Map<G>(ar(c, sr));
        });
        break;
      }
      case K_VALUE_FROM_TEMP_VIEW: {
        c.verbatim_out = 1;
        const Coef e = Eigen::Map<const Coef>(mi(c, r));
        emit(c.exp, c.exp_bytes, e);
        emit(c.exp, c.exp_bytes, e);
        {
          G v1 = rand_elem<G>(in), v2 = rand_elem<G>(in);
          v1 = smooth::Map<G>(ar(c, r));
          smooth::Map<G> tmp(ar(c, r));
          v2 = std::move(tmp);
          emit(c.out, c.out_bytes, v1.coeffs());
          emit(c.out, c.out_bytes, v2.coeffs());
        }
        break;
      }
      case K_PART_TO_VALUE: {
        if constexpr (L::n == 0) {
          c.applicable = 0;
        } else {
          const int part = k.part % L::n;
          const int off = L::parts[(std::size_t)part].off, len = L::parts[(std::size_t)part].len;
          const S* mp = mi(c, r) + off;
          c.verbatim_out = 1;
          for (int i = 0; i < len; ++i) emit_scalar(c.exp, c.exp_bytes, mp[i]);
          with_mut(c, [&](auto& m) {
            with_part(m, part, [&](auto pv, auto idx) {
              using PV = decltype(pv);
              constexpr int kind = part_kind<PV>();
              constexpr int I = decltype(idx)::value;
              if constexpr (kind == 0) {
                using P = LiePlain<PV>;
                P val = rand_elem<P>(in);
                val = L::template get<I>(m);  // rvalue sub-part view of a mutable view
                emit(c.out, c.out_bytes, val.coeffs());
              } else if constexpr (kind == 1) {
                using Vec = Eigen::Matrix<S, std::decay_t<PV>::SizeAtCompileTime, 1>;
                Vec val = rand_vec<S, Vec::SizeAtCompileTime>(in, 1.0);
                val = L::template get<I>(m);
                emit(c.out, c.out_bytes, val);
              } else {
                Eigen::Quaternion<S> q(S(1), S(0), S(0), S(0));
                q = L::template get<I>(m);
                emit(c.out, c.out_bytes, q.coeffs());
              }
            });
          });
        }
        break;
      }
      case K_PART_FROM_TEMP_VIEW: {
        if constexpr (L::n == 0) {
          c.applicable = 0;
        } else {
          const int part = k.part % L::n;
          const int off = L::parts[(std::size_t)part].off, len = L::parts[(std::size_t)part].len;
          allow(c, off, off + len, true);
          std::memmove(mi(c, r) + off, mi(c, sr) + off, sizeof(S) * (size_t)len);
          with_mut(c, [&](auto& m) {
            with_part(m, part, [&](auto pv, auto) {
              using PV = decltype(pv);
              constexpr int kind = part_kind<PV>();
              S* sp = ar(c, sr) + off;  // the same part of the source element, by the documented layout
              if constexpr (kind == 0) {
                using P = LiePlain<PV>;
                pv = smooth::Map<P>(sp);
              } else if constexpr (kind == 1) {
                using Vec = Eigen::Matrix<S, std::decay_t<PV>::SizeAtCompileTime, 1>;
                pv = Eigen::Map<Vec>(sp);
              } else {
                pv = Eigen::Map<Eigen::Quaternion<S>>(sp);
              }
            });
          });
        }
        break;
      }
      case K_MOVED_VIEW_WRITE: {
        allow(c, 0, N, true);
        std::memmove(mi(c, r), mi(c, sr), sizeof(S) * N);
        with_mut(c, [&](auto& m) {
          smooth::Map<G> tmp(m);
          smooth::Map<G> m2(std::move(tmp));
          with_src(c, [&](const auto& s) { m2 = s; });
        });
        break;
      }
      case K_FREE_FUNCTIONS: {
        // the generic (concept-layer) free functions called with views: they take their arguments by
        // const reference and must treat a view like a value - in particular never use a COPY of a
        // view as scratch (that copy shows the same memory). (The free rminus / lplus / lminus of the unmodified
        // library do not compile with a view as first argument and are therefore not in the list.)
        const G val = value_at(mi(c, r));
        const G sv = value_at(mi(c, sr));
        const auto a = rand_vec<S, G::Dof>(in, 0.7);
        emit(c.exp, c.exp_bytes, smooth::composition(val, sv).coeffs());
        emit(c.exp, c.exp_bytes, smooth::composition(val, sv, val).coeffs());
        emit(c.exp, c.exp_bytes, smooth::composition(val, sv, sv, val).coeffs());
        emit(c.exp, c.exp_bytes, smooth::composition(sv, val, sv).coeffs());
        emit(c.exp, c.exp_bytes, smooth::rplus(val, a).coeffs());
        emit(c.exp, c.exp_bytes, smooth::log(val));
        emit(c.exp, c.exp_bytes, smooth::Ad(val));
        emit(c.exp, c.exp_bytes, smooth::inverse(val).coeffs());
        emit_scalar(c.exp, c.exp_bytes, static_cast<S>(smooth::dof(val)));
        with_view(c, [&](const auto& v) {
          with_src(c, [&](const auto& s) {
            emit(c.out, c.out_bytes, smooth::composition(v, s).coeffs());
            // multinary forms with the view FIRST: through mutable views only, so that the harness still builds
            // against a library whose fold assigns to a copy of its first argument (seeded change S16-16 does
            // not compile for a const view there); const views are covered in the other positions
            if constexpr (std::is_same_v<std::decay_t<decltype(v)>, smooth::Map<const G>>) {
              emit(c.out, c.out_bytes, smooth::composition(G(v), s, v).coeffs());
              emit(c.out, c.out_bytes, smooth::composition(G(v), s, s, v).coeffs());
            } else {
              emit(c.out, c.out_bytes, smooth::composition(v, s, v).coeffs());
              emit(c.out, c.out_bytes, smooth::composition(v, s, s, v).coeffs());
            }
            if constexpr (std::is_same_v<std::decay_t<decltype(s)>, smooth::Map<const G>>) {
              emit(c.out, c.out_bytes, smooth::composition(G(s), v, s).coeffs());
            } else {
              emit(c.out, c.out_bytes, smooth::composition(s, v, s).coeffs());
            }
            emit(c.out, c.out_bytes, smooth::rplus(v, a).coeffs());
            emit(c.out, c.out_bytes, smooth::log(v));
            emit(c.out, c.out_bytes, smooth::Ad(v));
            emit(c.out, c.out_bytes, smooth::inverse(v).coeffs());
            emit_scalar(c.out, c.out_bytes, static_cast<S>(smooth::dof(v)));
          });
        });
        break;
      }
      case K_RVALUE_VIEW_OPS: {
        // Operators and const members on views that are RVALUES: a temporary Map, a moved-from Map, the
        // prvalue returned by a sub-part accessor of a mutable view. An "expiring" view still does not
        // own the memory it shows: nothing may be written, results equal those of value objects.
        const G val = value_at(mi(c, r));
        const G sv = value_at(mi(c, sr));
        const auto a = rand_vec<S, G::Dof>(in, 0.7);
        emit(c.exp, c.exp_bytes, (val * sv).coeffs());
        emit(c.exp, c.exp_bytes, (val + a).coeffs());
        emit(c.exp, c.exp_bytes, val - sv);
        emit(c.exp, c.exp_bytes, val.inverse().coeffs());
        emit(c.exp, c.exp_bytes, val.log());
        emit(c.exp, c.exp_bytes, (val * sv).coeffs());
        emit(c.exp, c.exp_bytes, (val + a).coeffs());
        with_src(c, [&](const auto& s) {
          emit(c.out, c.out_bytes, (smooth::Map<G>(ar(c, r)) * s).coeffs());
          emit(c.out, c.out_bytes, (smooth::Map<G>(ar(c, r)) + a).coeffs());
          emit(c.out, c.out_bytes, smooth::Map<G>(ar(c, r)) - s);
          emit(c.out, c.out_bytes, smooth::Map<G>(ar(c, r)).inverse().coeffs());
          emit(c.out, c.out_bytes, smooth::Map<G>(ar(c, r)).log());
          smooth::Map<G> t1(ar(c, r)), t2(ar(c, r));
          emit(c.out, c.out_bytes, (std::move(t1) * s).coeffs());
          emit(c.out, c.out_bytes, (std::move(t2) + a).coeffs());
        });
        if constexpr (L::n > 0) {
          const int part = k.part % L::n;
          const int off = L::parts[(std::size_t)part].off, len = L::parts[(std::size_t)part].len;
          const S* mp = mi(c, r) + off;
          with_mut(c, [&](auto& m) {
            with_part(m, part, [&](auto pv, auto idx) {
              using PV = decltype(pv);
              constexpr int kind = part_kind<PV>();
              constexpr int I = decltype(idx)::value;
              if constexpr (kind == 0) {
                using P = LiePlain<PV>;
                P mv;
                for (int i = 0; i < len; ++i) mv.coeffs()(i) = mp[i];
                const P x = rand_elem<P>(in);
                const auto t = rand_vec<S, P::Dof>(in, 0.7);
                emit(c.exp, c.exp_bytes, (mv * x).coeffs());
                emit(c.exp, c.exp_bytes, (mv + t).coeffs());
                emit(c.exp, c.exp_bytes, mv - x);
                emit(c.exp, c.exp_bytes, mv.inverse().coeffs());
                emit(c.exp, c.exp_bytes, mv.log());
                emit(c.out, c.out_bytes, (L::template get<I>(m) * x).coeffs());
                emit(c.out, c.out_bytes, (L::template get<I>(m) + t).coeffs());
                emit(c.out, c.out_bytes, L::template get<I>(m) - x);
                emit(c.out, c.out_bytes, L::template get<I>(m).inverse().coeffs());
                emit(c.out, c.out_bytes, L::template get<I>(m).log());
              }
            });
          });
        }
        break;
      }
      case K_HELPERS: {
        const G val = value_at(mi(c, r));
        auto helpers = [&](const auto& v, unsigned char* buf, int& n) {
          emit_scalar(buf, n, static_cast<S>(v.dof()));
          if constexpr (requires { v.eulerAngles(); }) {
            emit(buf, n, v.eulerAngles());
            emit(buf, n, v.project_so2().coeffs());
          }
          if constexpr (requires { v.angle_cw(); }) {
            emit_scalar(buf, n, v.angle());
            emit_scalar(buf, n, v.angle_cw());
            emit_scalar(buf, n, v.angle_ccw());
            emit(buf, n, v.unit_complex());
            emit_scalar(buf, n, v.u1().real());
            emit_scalar(buf, n, v.u1().imag());
            emit(buf, n, v.lift_so3().coeffs());
          }
          if constexpr (requires { v.lift_se3(); }) {
            emit(buf, n, v.isometry().matrix());
            emit(buf, n, v.lift_se3().coeffs());
          }
          if constexpr (requires { v.project_se2(); }) {
            emit(buf, n, v.isometry().matrix());
            emit(buf, n, v.project_se2().coeffs());
          }
          if constexpr (requires { v.scaling(); }) {
            emit_scalar(buf, n, v.angle());
            emit_scalar(buf, n, v.scaling());
            emit(buf, n, v.so2().coeffs());
            emit_scalar(buf, n, v.c1().real());
            emit_scalar(buf, n, v.c1().imag());
          }
        };
        helpers(val, c.exp, c.exp_bytes);
        with_view(c, [&](const auto& v) { helpers(v, c.out, c.out_bytes); });
        break;
      }
      case K_MAP_MOVE_ASSIGN: {
        allow(c, 0, N, true);
        std::memmove(mi(c, r), mi(c, sr), sizeof(S) * N);
        with_mut(c, [&](auto& m) {
          smooth::Map<G> s(ar(c, sr));
          m = std::move(s);
        });
        break;
      }
      case K_SET_RANDOM: {
        allow(c, 0, N, false);
        with_mut(c, [](auto& m) { m.setRandom(); });
        // the generator is process-wide state (std::rand): only the write set is checked, the
        // model takes over whatever was stored
        std::memmove(mi(c, r), ar(c, r), sizeof(S) * N);
        break;
      }
      default: c.applicable = 0; break;
    }
  }

  // contents classes (salt % 10): generic elements, and the contents a library routine never
  // produces but a caller-owned buffer may hold: identity, all signs flipped (negative w),
  // un-normalised, a coefficient exactly zero, a half-turn, NaN / infinity, denormal-small
  static void make_elem(void* dst, uint64_t salt) {
    In in{salt};
    G e = rand_elem<G>(in);
    S* out = static_cast<S*>(dst);
    const int cls = (int)(salt % 10);
    if (cls == 3) e.setIdentity();
    if (cls == 6) {
      // exp of a tangent whose rotational entries sum up to an angle of about pi
      auto a = rand_vec<S, G::Dof>(in, 1.0);
      a *= static_cast<S>(3.14159265358979323846 / (a.norm() > S(0) ? a.norm() : S(1)));
      e = G::exp(a);
    }
    store(out, e);
    if (cls == 4) for (int i = 0; i < N; ++i) out[i] = -out[i];
    if (cls == 5) for (int i = 0; i < N; ++i) out[i] = out[i] * S(3);
    if (cls == 7) out[(salt >> 8) % N] = S(0);
    if (cls == 8) out[(salt >> 8) % N] = ((salt >> 16) & 1) ? std::numeric_limits<S>::quiet_NaN() : std::numeric_limits<S>::infinity();
    if (cls == 9) for (int i = 0; i < N; ++i) out[i] = out[i] * static_cast<S>(1e-30);
  }
  static void* make_views(void* const arena[kRegions]) { return new Views<G>(arena); }
  static void free_views(void* p) { delete static_cast<Views<G>*>(p); }
};

template<class G>
inline TypeDef make_typedef(const char* name) {
  TypeDef t{};
  t.name = name;
  t.repsize = G::RepSize;
  t.dof = G::Dof;
  t.scalar_bytes = (int)sizeof(typename G::Scalar);
  t.nparts = Layout<G>::n;
  for (int i = 0; i < Layout<G>::n && i < kMaxParts; ++i) {
    t.part_names[i] = Layout<G>::parts[(std::size_t)i].name;
    t.part_off[i] = Layout<G>::parts[(std::size_t)i].off;
    t.part_len[i] = Layout<G>::parts[(std::size_t)i].len;
  }
  t.run = &T16<G>::run;
  t.make_elem = &T16<G>::make_elem;
  t.make_views = &T16<G>::make_views;
  t.free_views = &T16<G>::free_views;
  return t;
}

struct TypeReg {
  TypeDef def;
  TypeReg(const TypeDef& d) : def(d) { reg_type(&def); }
};

#define REG_C16(G, NAME) static ::c16t::TypeReg reg16_##NAME(::c16t::make_typedef<G>(#NAME))

}  // namespace c16t
