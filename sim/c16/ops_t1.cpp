#include "ops_types.hpp"
REG_C16(smooth::SO2d, SO2d);
REG_C16(smooth::SO3d, SO3d);
REG_C16(smooth::C1d, C1d);
REG_C16(smooth::SE2d, SE2d);
