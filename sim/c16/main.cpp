// c16sim — simulated caller-owned storage, seeded interleaved histories of several logical clients
// holding Map views over it, reference model, and the intercepted-write-set oracle.  Uninstrumented.
#include <signal.h>
#include <sys/personality.h>
#include <sys/wait.h>
#include <time.h>
#include <unistd.h>

#include <cinttypes>
#include <cmath>
#include <cstdio>
#include <cstdlib>
#include <cstring>
#include <string>
#include <vector>

#include "../rt/sim.h"
#include "c16.hpp"

#ifdef C18SIM_COVERAGE
extern "C" void __gcov_dump(void);
#endif

namespace c16 {

uint64_t mix64(uint64_t x) {
  x += 0x9e3779b97f4a7c15ull;
  x = (x ^ (x >> 30)) * 0xbf58476d1ce4e5b9ull;
  x = (x ^ (x >> 27)) * 0x94d049bb133111ebull;
  return x ^ (x >> 31);
}
uint64_t In::u64() { return mix64(s += 0x9e3779b97f4a7c15ull); }
double In::unit() { return (double)(u64() >> 11) * (1.0 / 9007199254740992.0); }
double In::sym(double a) { return (2.0 * unit() - 1.0) * a; }

static const TypeDef* g_types[64];
static size_t g_ntypes;
void reg_type(const TypeDef* t) {
  if (g_ntypes < 64) g_types[g_ntypes++] = t;
}
size_t n_types() { return g_ntypes; }
const TypeDef* type_at(size_t i) { return g_types[i]; }
const TypeDef* find_type(const char* name) {
  for (size_t i = 0; i < g_ntypes; ++i)
    if (!strcmp(g_types[i]->name, name)) return g_types[i];
  return nullptr;
}

}  // namespace c16

using namespace c16;

// ------------------------------------------------------------------------------------------------
// history
// ------------------------------------------------------------------------------------------------

enum StepKind { ST_CALL = 0, ST_OVERWRITE = 1, ST_REPAINT = 2 };

struct Step {
  int kind = ST_CALL;
  Call call{};
  int region = 0;     // overwrite: which region
  uint64_t salt = 0;  // overwrite / repaint
};

struct History {
  std::string type;
  uint64_t seed = 0;
  int align = 0;        // base offset of the arena's first element, in scalars (unaligned_base)
  uint64_t fill = 0;    // fill pattern of guards and gaps
  int nclients = 2;
  std::vector<Step> steps;
};

static std::string history_to_text(const History& hs) {
  std::string s;
  char b[256];
  snprintf(b, sizeof b, "plan 1\nprop C16\ntype %s\nseed %" PRIu64 "\nalign %d\nfill %" PRIu64 "\nnclients %d\n", hs.type.c_str(),
           hs.seed, hs.align, hs.fill, hs.nclients);
  s += b;
  for (const auto& st : hs.steps) {
    if (st.kind == ST_CALL) {
      const Call& c = st.call;
      snprintf(b, sizeof b, "call %d %s %d %d %d %d %d %d %d %" PRIu64 "\n", c.client, kCallNames[c.id], c.region, c.view,
               c.src_region, c.src_kind, c.part, c.idx, c.stale, c.salt);
    } else if (st.kind == ST_OVERWRITE) {
      snprintf(b, sizeof b, "env overwrite %d %" PRIu64 "\n", st.region, st.salt);
    } else {
      snprintf(b, sizeof b, "env repaint %" PRIu64 "\n", st.salt);
    }
    s += b;
  }
  s += "end\n";
  return s;
}

static bool history_from_text(const char* text, History& hs, std::string& err) {
  hs = History();
  const char* p = text;
  bool ended = false;
  while (*p) {
    const char* e = strchr(p, '\n');
    std::string line = e ? std::string(p, e - p) : std::string(p);
    p = e ? e + 1 : p + line.size();
    if (line.empty() || line[0] == '#') continue;
    char kw[32] = {0};
    sscanf(line.c_str(), "%31s", kw);
    const char* rest = line.c_str() + strlen(kw);
    if (!strcmp(kw, "plan") || !strcmp(kw, "prop")) continue;
    if (!strcmp(kw, "type")) {
      char nm[64];
      sscanf(rest, "%63s", nm);
      hs.type = nm;
      continue;
    }
    if (!strcmp(kw, "seed")) { sscanf(rest, "%" SCNu64, &hs.seed); continue; }
    if (!strcmp(kw, "align")) { sscanf(rest, "%d", &hs.align); continue; }
    if (!strcmp(kw, "fill")) { sscanf(rest, "%" SCNu64, &hs.fill); continue; }
    if (!strcmp(kw, "nclients")) { sscanf(rest, "%d", &hs.nclients); continue; }
    if (!strcmp(kw, "call")) {
      Step st;
      st.kind = ST_CALL;
      char nm[64];
      Call& c = st.call;
      if (sscanf(rest, "%d %63s %d %d %d %d %d %d %d %" SCNu64, &c.client, nm, &c.region, &c.view, &c.src_region, &c.src_kind,
                 &c.part, &c.idx, &c.stale, &c.salt) != 10) { err = "bad call: " + line; return false; }
      c.id = -1;
      for (int i = 0; i < K_NCALLS; ++i)
        if (!strcmp(nm, kCallNames[i])) c.id = i;
      if (c.id < 0) { err = "unknown call " + std::string(nm); return false; }
      if (c.region < 0 || c.region >= kRegions || c.src_region < 0 || c.src_region >= kRegions) { err = "bad region"; return false; }
      if (call_mutates(c.id)) c.view = 0;
      hs.steps.push_back(st);
      continue;
    }
    if (!strcmp(kw, "env")) {
      Step st;
      char what[32];
      sscanf(rest, "%31s", what);
      if (!strcmp(what, "overwrite")) {
        st.kind = ST_OVERWRITE;
        if (sscanf(rest, "%*s %d %" SCNu64, &st.region, &st.salt) != 2) { err = "bad env"; return false; }
        if (st.region < 0 || st.region >= kRegions) { err = "bad region"; return false; }
      } else if (!strcmp(what, "repaint")) {
        st.kind = ST_REPAINT;
        if (sscanf(rest, "%*s %" SCNu64, &st.salt) != 1) { err = "bad env"; return false; }
      } else { err = "bad env"; return false; }
      hs.steps.push_back(st);
      continue;
    }
    if (!strcmp(kw, "end")) { ended = true; break; }
    err = "unknown line: " + line;
    return false;
  }
  if (!ended) { err = "missing end"; return false; }
  if (!find_type(hs.type.c_str())) { err = "unknown type " + hs.type; return false; }
  return true;
}

// ------------------------------------------------------------------------------------------------
// arena
// ------------------------------------------------------------------------------------------------

constexpr size_t kGuard = 96;   // bytes of guard zone at either end
constexpr size_t kGap = 40;     // bytes between elements (neighbouring tenants' own data would be here)
constexpr size_t kArenaMax = 4096;

struct Arena {
  alignas(64) unsigned char bytes[kArenaMax];
  alignas(64) unsigned char mirror[kArenaMax];
  alignas(64) unsigned char before[kArenaMax];
  size_t lo = 0, hi = 0;       // used span
  size_t elem_off[kRegions] = {};
  size_t elem_bytes = 0;
};

static void paint(Arena& a, uint64_t salt, bool only_outside_elements) {
  In in{salt};
  for (size_t i = a.lo; i < a.hi; i += 8) {
    uint64_t w = in.u64();
    // sprinkle NaN payloads and infinities: a read of a neighbour shows up in results
    int sel = (int)(w & 7);
    if (sel == 0) w = 0x7ff8000000000000ull | (w >> 13);
    else if (sel == 1) w = 0x7ff0000000000000ull;
    else if (sel == 2) w = 0x7fc000007fc00000ull;
    for (size_t k = 0; k < 8 && i + k < a.hi; ++k) {
      size_t pos = i + k;
      bool inside = false;
      if (only_outside_elements)
        for (int r = 0; r < kRegions; ++r)
          if (pos >= a.elem_off[r] && pos < a.elem_off[r] + a.elem_bytes) inside = true;
      if (!inside) a.bytes[pos] = (unsigned char)(w >> (8 * k));
    }
  }
}

// ------------------------------------------------------------------------------------------------
// oracle
// ------------------------------------------------------------------------------------------------

static int64_t ord_f64(double d) {
  int64_t i;
  memcpy(&i, &d, 8);
  return i < 0 ? (int64_t)0x8000000000000000ull - i : i;
}
static int32_t ord_f32(float f) {
  int32_t i;
  memcpy(&i, &f, 4);
  return i < 0 ? (int32_t)0x80000000u - i : i;
}

// number of units in the last place between two scalars (NaN == NaN; otherwise NaN is infinitely far)
static double ulp_dist(const unsigned char* a, const unsigned char* b, int sb) {
  if (sb == 8) {
    double x, y;
    memcpy(&x, a, 8);
    memcpy(&y, b, 8);
    if (std::isnan(x) || std::isnan(y)) return (std::isnan(x) && std::isnan(y)) ? 0 : 1e300;
    if (x == y) return 0;
    return std::fabs((double)ord_f64(x) - (double)ord_f64(y));
  }
  if (sb == 4) {
    float x, y;
    memcpy(&x, a, 4);
    memcpy(&y, b, 4);
    if (std::isnan(x) || std::isnan(y)) return (std::isnan(x) && std::isnan(y)) ? 0 : 1e300;
    if (x == y) return 0;
    return std::fabs((double)ord_f32(x) - (double)ord_f32(y));
  }
  return memcmp(a, b, (size_t)sb) ? 1e300 : 0;
}

enum Viol : unsigned {
  V_WRITE_OUTSIDE = 1,   // intercepted store outside the permitted range (oracle a)
  V_CONST_WRITE = 2,     // a const view / non-mutating call stored into the arena (oracle a)
  V_OUTSIDE_CHANGED = 4, // bytes outside the permitted range differ after the call (oracle b)
  V_REGION_MISMATCH = 8, // written range differs from the model (oracle c)
  V_RESULT_MISMATCH = 16, // result through the view differs from the value-object result (oracle d)
  V_CRASH = 32
};

static const char* viol_name(unsigned v) {
  if (v & V_CRASH) return "crash";
  if (v & V_CONST_WRITE) return "nonmutating_call_wrote";
  if (v & V_WRITE_OUTSIDE) return "write_outside_view";
  if (v & V_OUTSIDE_CHANGED) return "bytes_outside_changed";
  if (v & V_REGION_MISMATCH) return "region_differs_from_model";
  if (v & V_RESULT_MISMATCH) return "result_differs_from_value";
  return "ok";
}

struct StepReport {
  unsigned viol = 0;
  int step = -1;
  std::string detail;
};

struct HistStats {
  uint64_t calls = 0, mutating = 0, part_calls = 0, overlapping = 0, const_calls = 0, env_overwrite = 0, env_repaint = 0,
           stale = 0, skipped = 0, intercepted_writes = 0, max_ulp_seen = 0;
  uint64_t by_call[K_NCALLS] = {};
};

static std::string g_current_plan;  // for the crash handler
static const History* g_cur_hist;
static volatile int g_cur_step = -1;
struct HistStats;
static HistStats* g_stats;
static uint64_t g_nh, g_nontriv, g_dh;
static void print_stats(const HistStats& st, uint64_t nh, uint64_t ntriv, uint64_t distinct_hash);
static std::string g_cand_dir;
static uint64_t g_cur_seed, g_cur_w;

static void crash_handler(int sig) {
  char nm[512];
  snprintf(nm, sizeof nm, "%s/crash-%" PRIu64 "-%" PRIu64 ".plan", g_cand_dir.empty() ? "." : g_cand_dir.c_str(), g_cur_seed, g_cur_w);
  FILE* f = g_cand_dir.empty() ? nullptr : fopen(nm, "w");
  if (!f) nm[0] = 0;
  if (f) {
    fwrite(g_current_plan.data(), 1, g_current_plan.size(), f);
    fclose(f);
  }
  char b[1200];
  char callinfo[400] = "";
  if (g_cur_hist && g_cur_step >= 0 && (size_t)g_cur_step < g_cur_hist->steps.size()) {
    const Step& s = g_cur_hist->steps[(size_t)g_cur_step];
    const TypeDef* td = find_type(g_cur_hist->type.c_str());
    if (s.kind == ST_CALL && td) {
      int part = (td->nparts && call_uses_part(s.call.id)) ? s.call.part % td->nparts : -1;
      snprintf(callinfo, sizeof callinfo, ",\"type\":\"%s\",\"call\":\"%s\",\"view\":\"%s\",\"part\":\"%s\",\"align\":%d",
               td->name, kCallNames[s.call.id], s.call.view ? "Map<const G>" : "Map<G>", part >= 0 ? td->part_names[part] : "",
               g_cur_hist->align);
    }
  }
  int n = snprintf(b, sizeof b, "{\"t\":\"hist\",\"seed\":%" PRIu64 ",\"w\":%" PRIu64 ",\"cls\":\"crash\",\"viol\":32,\"sig\":%d,\"step\":%d%s,\"cand\":\"%s\"}\n",
                   g_cur_seed, g_cur_w, sig, (int)g_cur_step, callinfo, nm);
  fflush(stdout);
  (void)!write(1, b, (size_t)n);
  if (g_stats) {
    // what the batch had covered before the crash
    print_stats(*g_stats, g_nh, g_nontriv, g_dh);
    fflush(stdout);
  }
  _exit(70);
}

static StepReport run_history(const History& hs, HistStats& st) {
  StepReport rep;
  const TypeDef* td = find_type(hs.type.c_str());
  static Arena a;
  const size_t sb = (size_t)td->scalar_bytes;
  a.elem_bytes = sb * (size_t)td->repsize;
  size_t off = 64 + kGuard + (size_t)(hs.align & 3) * sb;
  a.lo = 64;
  for (int r = 0; r < kRegions; ++r) {
    a.elem_off[r] = off;
    off += a.elem_bytes + kGap + (size_t)((hs.fill >> (8 * r)) & 1) * sb;  // tenants at varying distance
  }
  a.hi = off - kGap + kGuard;
  if (a.hi > kArenaMax) {
    rep.viol = 0;
    return rep;
  }
  paint(a, hs.fill, false);
  for (int r = 0; r < kRegions; ++r) td->make_elem(a.bytes + a.elem_off[r], mix64(hs.fill ^ (uint64_t)(r + 1)));
  memcpy(a.mirror, a.bytes, kArenaMax);

  void* arena_ptr[kRegions];
  void* mirror_ptr[kRegions];
  for (int r = 0; r < kRegions; ++r) {
    arena_ptr[r] = a.bytes + a.elem_off[r];
    mirror_ptr[r] = a.mirror + a.elem_off[r];
  }
  void* views = td->make_views(arena_ptr);
  static Ctx cx;

  g_cur_hist = &hs;
  for (size_t si = 0; si < hs.steps.size(); ++si) {
    const Step& s = hs.steps[si];
    g_cur_step = (int)si;
    if (s.kind == ST_OVERWRITE) {
      // the environment replaces an element by another valid one (a view that cached anything
      // now disagrees); mirrored in the model
      td->make_elem(a.bytes + a.elem_off[s.region], s.salt);
      memcpy(a.mirror + a.elem_off[s.region], a.bytes + a.elem_off[s.region], a.elem_bytes);
      st.env_overwrite++;
      continue;
    }
    if (s.kind == ST_REPAINT) {
      paint(a, s.salt, true);
      memcpy(a.mirror, a.bytes, kArenaMax);
      st.env_repaint++;
      continue;
    }
    Call call = s.call;
    if (call_mutates(call.id)) call.view = 0;
    cx.call = &call;
    for (int r = 0; r < kRegions; ++r) {
      cx.arena[r] = arena_ptr[r];
      cx.mirror[r] = mirror_ptr[r];
    }
    cx.views = views;
    memcpy(a.before, a.bytes, kArenaMax);
    sim::ws_begin(a.bytes + a.lo, a.bytes + a.hi);
    td->run(cx);
    sim::ws_end();
    if (!cx.applicable) {
      st.skipped++;
      memcpy(a.mirror, a.bytes, kArenaMax);
      continue;
    }
    st.calls++;
    st.by_call[call.id]++;
    if (call_mutates(call.id)) st.mutating++;
    else st.const_calls++;
    if (call_uses_part(call.id)) st.part_calls++;
    if (call.src_region == call.region && (call.id == K_ASSIGN_FROM || call.id == K_MUL_ASSIGN || call.id == K_MAP_ASSIGN_MAP ||
                                            call.id == K_COMPOSE || call.id == K_RMINUS || call.id == K_CONSTRUCT_INTO ||
                                            call.id == K_ASSIGN_FROM_TEMP_VIEW || call.id == K_PART_FROM_TEMP_VIEW || call.id == K_MAP_MOVE_ASSIGN || call.id == K_MOVED_VIEW_WRITE))
      st.overlapping++;
    if (call.stale) st.stale++;
    st.intercepted_writes += sim::ws_count();

    char b[512];
    // (a) exact write set
    size_t plo = 0, phi = 0;  // permitted byte range in arena coordinates
    if (cx.wregion >= 0) {
      plo = a.elem_off[cx.wregion] + (size_t)cx.wlo * sb;
      phi = a.elem_off[cx.wregion] + (size_t)cx.whi * sb;
    }
    if (sim::ws_overflow()) {
      rep.viol |= V_WRITE_OUTSIDE;
      rep.detail = "\"why\":\"write log overflow\"";
    }
    const sim::WsRec* recs = sim::ws_recs();
    for (size_t i = 0; i < sim::ws_count(); ++i) {
      size_t wlo = (size_t)(recs[i].addr - (uintptr_t)a.bytes), whi = wlo + recs[i].size;
      if (wlo < a.lo) wlo = a.lo;
      if (whi > a.hi) whi = a.hi;
      bool ok = cx.wregion >= 0 && wlo >= plo && whi <= phi;
      if (!ok) {
        rep.viol |= (cx.wregion < 0) ? V_CONST_WRITE : V_WRITE_OUTSIDE;
        // describe where the store landed
        const char* where = "guard/gap";
        int wr = -1;
        for (int r = 0; r < kRegions; ++r)
          if (whi > a.elem_off[r] && wlo < a.elem_off[r] + a.elem_bytes) { where = "element"; wr = r; }
        long rel = wr >= 0 ? (long)wlo - (long)a.elem_off[wr] : (long)wlo - (long)a.elem_off[call.region];
        snprintf(b, sizeof b,
                 "\"store\":{\"pc\":%u,\"size\":%u,\"landed_in\":\"%s\",\"region\":%d,\"byte_offset_in_region\":%ld,\"permitted\":[%d,%d],"
                 "\"permitted_region\":%d}",
                 recs[i].pc, recs[i].size, where, wr, rel, cx.wlo, cx.whi, cx.wregion);
        if (rep.detail.empty()) rep.detail = b;
        break;
      }
    }
    // (b) everything outside the permitted range is bit-identical to before the call
    for (size_t i = a.lo; i < a.hi; ++i) {
      if (cx.wregion >= 0 && i >= plo && i < phi) continue;
      if (a.bytes[i] != a.before[i]) {
        rep.viol |= V_OUTSIDE_CHANGED;
        snprintf(b, sizeof b, "\"changed_byte\":{\"arena_offset\":%zu,\"rel_to_viewed_region\":%ld}", i,
                 (long)i - (long)a.elem_off[call.region]);
        if (rep.detail.empty()) rep.detail = b;
        break;
      }
    }
    // (c) permitted range equals the model
    if (cx.wregion >= 0) {
      for (int k = cx.wlo; k < cx.whi; ++k) {
        const unsigned char* x = a.bytes + a.elem_off[cx.wregion] + (size_t)k * sb;
        const unsigned char* y = a.mirror + a.elem_off[cx.wregion] + (size_t)k * sb;
        double d = ulp_dist(x, y, (int)sb);
        if (d < 1e299 && (uint64_t)d > st.max_ulp_seen) st.max_ulp_seen = (uint64_t)d;
        if (d > (cx.verbatim_region ? 0.0 : 4.0)) {
          rep.viol |= V_REGION_MISMATCH;
          snprintf(b, sizeof b, "\"coefficient\":{\"index\":%d,\"ulp\":%g,\"verbatim\":%d}", k, d > 1e18 ? -1.0 : d, cx.verbatim_region);
          if (rep.detail.empty()) rep.detail = b;
          break;
        }
      }
    }
    // (d) results
    if (cx.out_bytes != cx.exp_bytes) {
      rep.viol |= V_RESULT_MISMATCH;
      if (rep.detail.empty()) rep.detail = "\"why\":\"result sizes differ\"";
    } else {
      int osb = cx.out_scalar_bytes;
      for (int i = 0; i + osb <= cx.out_bytes; i += osb) {
        double d = ulp_dist(cx.out + i, cx.exp + i, osb);
        if (d < 1e299 && (uint64_t)d > st.max_ulp_seen) st.max_ulp_seen = (uint64_t)d;
        if (d > (cx.verbatim_out ? 0.0 : 4.0)) {
          rep.viol |= V_RESULT_MISMATCH;
          snprintf(b, sizeof b, "\"result\":{\"index\":%d,\"ulp\":%g,\"verbatim\":%d}", i / osb, d > 1e18 ? -1.0 : d, cx.verbatim_out);
          if (rep.detail.empty()) rep.detail = b;
          break;
        }
      }
    }
    if (rep.viol) {
      rep.step = (int)si;
      break;
    }
    // resynchronise the model with the storage (tolerances do not accumulate across calls)
    memcpy(a.mirror, a.bytes, kArenaMax);
  }
  td->free_views(views);
  return rep;
}

// ------------------------------------------------------------------------------------------------
// generation
// ------------------------------------------------------------------------------------------------

struct Rng {
  uint64_t s;
  uint64_t u64() { return mix64(s += 0x9e3779b97f4a7c15ull); }
  double unit() { return (double)(u64() >> 11) * (1.0 / 9007199254740992.0); }
  int below(int n) { return n > 0 ? (int)(u64() % (uint64_t)n) : 0; }
  bool coin(double p) { return unit() < p; }
};

static void gen_history(uint64_t seed, uint64_t widx, int thorough, const std::string& only_type, History& hs) {
  Rng r{mix64(mix64(seed ^ 0xC16C16ull) + widx * 0x9e3779b97f4a7c15ull)};
  hs = History();
  hs.seed = mix64(seed) ^ widx;
  const TypeDef* td = only_type.empty() ? type_at((size_t)r.below((int)n_types())) : find_type(only_type.c_str());
  hs.type = td->name;
  hs.align = r.below(4);
  hs.fill = r.u64();
  hs.nclients = 2 + r.below(4);
  // swarm: which call kinds are enabled in this history, environment perturbation rates
  bool enabled[K_NCALLS];
  int nen = 0;
  for (int i = 0; i < K_NCALLS; ++i) {
    enabled[i] = r.coin(0.6);
    nen += enabled[i];
  }
  if (nen == 0) enabled[r.below(K_NCALLS)] = true;
  double p_over = r.coin(0.5) ? 0.1 : 0.0, p_repaint = r.coin(0.5) ? 0.1 : 0.0, p_stale = r.coin(0.5) ? 0.5 : 0.0;
  double p_same = r.coin(0.5) ? 0.3 : 0.05;  // identical source and destination regions
  int n = 1 + r.below(thorough ? 60 : 24);
  // each client has a home region and a preferred view kind
  int home[8], pview[8];
  for (int c = 0; c < hs.nclients; ++c) {
    home[c] = r.coin(0.6) ? 0 : 1 + r.below(2);
    pview[c] = r.below(2);
  }
  for (int i = 0; i < n; ++i) {
    if (r.coin(p_over)) {
      Step st;
      st.kind = ST_OVERWRITE;
      st.region = r.below(kRegions);
      st.salt = r.u64();
      hs.steps.push_back(st);
    }
    if (r.coin(p_repaint)) {
      Step st;
      st.kind = ST_REPAINT;
      st.salt = r.u64();
      hs.steps.push_back(st);
    }
    Step st;
    st.kind = ST_CALL;
    Call& c = st.call;
    c.client = r.below(hs.nclients);
    // the two calls that run a numerical differentiation / a solver are ~100x the cost of the others:
    // one in eight draws of them is kept
    for (;;) {
      c.id = r.below(K_NCALLS);
      if (!enabled[c.id]) continue;
      if ((c.id == K_DIFF_WRT_VIEW || c.id == K_MINIMIZE_WRT_VIEW) && nen > 2 && r.below(8) != 0) continue;
      break;
    }
    c.region = r.coin(0.8) ? home[c.client] : r.below(kRegions);
    c.view = call_mutates(c.id) ? 0 : (r.coin(0.7) ? pview[c.client] : r.below(2));
    c.src_region = r.coin(p_same) ? c.region : r.below(kRegions);
    c.src_kind = r.below(3);
    c.part = r.below(8);
    c.idx = r.below(256);
    c.stale = r.coin(p_stale);
    c.salt = r.u64();
    hs.steps.push_back(st);
  }
}

// ------------------------------------------------------------------------------------------------
// commands
// ------------------------------------------------------------------------------------------------

static double now_s() {
  struct timespec ts;
  clock_gettime(CLOCK_MONOTONIC, &ts);
  return (double)ts.tv_sec + 1e-9 * (double)ts.tv_nsec;
}

static std::string hist_json(const char* tag, uint64_t seed, uint64_t widx, const History& hs, const StepReport& rep,
                             const std::string& cand) {
  char b[1024];
  std::string s;
  const Step* fs = rep.step >= 0 ? &hs.steps[(size_t)rep.step] : nullptr;
  snprintf(b, sizeof b, "{\"t\":\"%s\",\"seed\":%" PRIu64 ",\"w\":%" PRIu64 ",\"type\":\"%s\",\"steps\":%zu,\"cls\":\"%s\",\"viol\":%u,\"step\":%d",
           tag, seed, widx, hs.type.c_str(), hs.steps.size(), viol_name(rep.viol), rep.viol, rep.step);
  s = b;
  if (fs && fs->kind == ST_CALL) {
    const TypeDef* td = find_type(hs.type.c_str());
    bool uses_part = call_uses_part(fs->call.id);
    int part = (td->nparts && uses_part) ? fs->call.part % td->nparts : -1;
    snprintf(b, sizeof b, ",\"call\":\"%s\",\"view\":\"%s\",\"src_kind\":%d,\"same_region\":%d,\"part\":\"%s\",\"stale\":%d",
             kCallNames[fs->call.id], fs->call.view ? "Map<const G>" : "Map<G>", fs->call.src_kind,
             (int)(fs->call.src_region == fs->call.region), part >= 0 ? td->part_names[part] : "", fs->call.stale);
    s += b;
  }
  if (!rep.detail.empty()) s += "," + rep.detail;
  if (!cand.empty()) s += ",\"cand\":\"" + cand + "\"";
  s += "}";
  return s;
}

static bool read_file(const std::string& path, std::string& text) {
  FILE* f = fopen(path.c_str(), "r");
  if (!f) return false;
  char buf[65536];
  size_t n;
  text.clear();
  while ((n = fread(buf, 1, sizeof buf, f)) > 0) text.append(buf, n);
  fclose(f);
  return true;
}

static void print_stats(const HistStats& st, uint64_t nh, uint64_t ntriv, uint64_t distinct_hash) {
  printf("{\"t\":\"stats\",\"histories\":%" PRIu64 ",\"nontrivial\":%" PRIu64 ",\"calls\":%" PRIu64 ",\"mutating\":%" PRIu64
         ",\"const\":%" PRIu64 ",\"part_calls\":%" PRIu64 ",\"identical_region_calls\":%" PRIu64 ",\"stale_view_calls\":%" PRIu64
         ",\"external_overwrite\":%" PRIu64 ",\"repaint_guards\":%" PRIu64 ",\"not_applicable_calls\":%" PRIu64
         ",\"intercepted_writes\":%" PRIu64 ",\"max_ulp_seen\":%" PRIu64 ",\"hash\":\"%016" PRIx64 "\",\"by_call\":{",
         nh, ntriv, st.calls, st.mutating, st.const_calls, st.part_calls, st.overlapping, st.stale, st.env_overwrite, st.env_repaint,
         st.skipped, st.intercepted_writes, st.max_ulp_seen, distinct_hash);
  for (int i = 0; i < K_NCALLS; ++i) printf("%s\"%s\":%" PRIu64, i ? "," : "", kCallNames[i], st.by_call[i]);
  printf("}}\n");
}

int main(int argc, char** argv) {
  if (!getenv("C16SIM_NOASLR_DONE")) {
    int pers = personality(0xffffffff);
    if (pers >= 0 && !(pers & ADDR_NO_RANDOMIZE) && personality(pers | ADDR_NO_RANDOMIZE) >= 0) {
      setenv("C16SIM_NOASLR_DONE", "1", 1);
      execv("/proc/self/exe", argv);
    }
  }
  setvbuf(stdout, nullptr, _IOFBF, 1 << 16);
  sim::init();
  if (argc < 2) return 2;
  std::string cmd = argv[1];
  std::vector<std::string> pos;
  int thorough = 0;
  std::string only_type;
  int max_cands = 8;
  uint64_t max_hist = ~0ull;
  for (int i = 2; i < argc; ++i) {
    std::string a = argv[i];
    if (a == "--thorough") thorough = 1;
    else if (a == "--type" && i + 1 < argc) only_type = argv[++i];
    else if (a == "--cand-dir" && i + 1 < argc) g_cand_dir = argv[++i];
    else if (a == "--max-cands" && i + 1 < argc) max_cands = atoi(argv[++i]);
    else if (a == "--max-histories" && i + 1 < argc) max_hist = strtoull(argv[++i], nullptr, 10);
    else pos.push_back(a);
  }
  signal(SIGSEGV, crash_handler);
  signal(SIGBUS, crash_handler);
  signal(SIGFPE, crash_handler);
  signal(SIGABRT, crash_handler);
  if (cmd == "types") {
    printf("{\"t\":\"types\",\"types\":[");
    for (size_t i = 0; i < n_types(); ++i) {
      const TypeDef* t = type_at(i);
      printf("%s{\"name\":\"%s\",\"repsize\":%d,\"scalar_bytes\":%d,\"parts\":[", i ? "," : "", t->name, t->repsize, t->scalar_bytes);
      for (int k = 0; k < t->nparts; ++k) printf("%s{\"name\":\"%s\",\"off\":%d,\"len\":%d}", k ? "," : "", t->part_names[k], t->part_off[k], t->part_len[k]);
      printf("]}");
    }
    printf("]}\n");
    return 0;
  }
  if (cmd == "gen" && pos.size() >= 2) {
    History hs;
    gen_history(strtoull(pos[0].c_str(), nullptr, 10), strtoull(pos[1].c_str(), nullptr, 10), thorough, only_type, hs);
    fputs(history_to_text(hs).c_str(), stdout);
    return 0;
  }
  if (cmd == "exec" && pos.size() >= 1) {
    std::string text, err;
    if (!read_file(pos[0], text)) { fprintf(stderr, "cannot read %s\n", pos[0].c_str()); return 2; }
    History hs;
    if (!history_from_text(text.c_str(), hs, err)) { fprintf(stderr, "bad plan: %s\n", err.c_str()); return 2; }
    g_current_plan = text;
    HistStats st;
    StepReport rep = run_history(hs, st);
    printf("%s\n", hist_json("exec", hs.seed, 0, hs, rep, "").c_str());
    return rep.viol ? 1 : 0;
  }
  if (cmd == "sweep" && pos.size() >= 4) {
    uint64_t seed = strtoull(pos[0].c_str(), nullptr, 10), w0 = strtoull(pos[1].c_str(), nullptr, 10),
             wstep = strtoull(pos[2].c_str(), nullptr, 10);
    double t_end = now_s() + atof(pos[3].c_str());
    // histories run in batches, each batch in a forked child: a crash inside the library (e.g. a
    // misaligned vector store) ends only its batch; the signal handler has already written the
    // history as a candidate
    g_cur_seed = seed;
    const uint64_t kBatch = 2048;
    uint64_t done = 0;
    int ncand_total = 0;
    for (uint64_t b = 0; done < max_hist; ++b) {
      if (now_s() > t_end) break;
      uint64_t todo = max_hist - done < kBatch ? max_hist - done : kBatch;
      fflush(stdout);
      pid_t pid = fork();
      if (pid == 0) {
        HistStats st;
        uint64_t nh = 0, nontriv = 0, dh = 0;
        int ncand = 0;
        g_stats = &st;
        for (uint64_t i = 0; i < todo; ++i, ++nh) {
          g_nh = nh;
          g_nontriv = nontriv;
          g_dh = dh;
          uint64_t w = w0 + (done + i) * wstep;
          History hs;
          gen_history(seed, w, thorough, only_type, hs);
          g_cur_w = w;
          g_current_plan = history_to_text(hs);
          HistStats before = st;
          StepReport rep = run_history(hs, st);
          bool nt = (st.part_calls > before.part_calls && st.mutating > before.mutating) || st.overlapping > before.overlapping;
          if (nt) {
            nontriv++;
            uint64_t hh = 0;
            for (char ch : g_current_plan) hh = mix64(hh ^ (uint64_t)(unsigned char)ch);
            dh ^= mix64(hh);
          }
          if (rep.viol) {
            std::string cand;
            if (ncand_total + ncand < max_cands && !g_cand_dir.empty()) {
              char nm[512];
              snprintf(nm, sizeof nm, "%s/cand-%" PRIu64 "-%" PRIu64 ".plan", g_cand_dir.c_str(), seed, w);
              FILE* f = fopen(nm, "w");
              if (f) {
                fwrite(g_current_plan.data(), 1, g_current_plan.size(), f);
                fclose(f);
                cand = nm;
                ncand++;
              }
            }
            printf("%s\n", hist_json("hist", seed, w, hs, rep, cand).c_str());
            fflush(stdout);
          } else if (b == 0 && nh < 3) {
            printf("%s\n", hist_json("hist", seed, w, hs, rep, "").c_str());
          }
        }
        print_stats(st, nh, nontriv, dh);
        fflush(stdout);
#ifdef C18SIM_COVERAGE
        __gcov_dump();  // bin/coverage: the batch child leaves through _exit()
#endif
        _exit(ncand > 0 ? 10 + (ncand > 50 ? 50 : ncand) : 0);
      }
      int stt = 0;
      waitpid(pid, &stt, 0);
      if (WIFEXITED(stt)) {
        int ec = WEXITSTATUS(stt);
        if (ec >= 10 && ec <= 60) ncand_total += ec - 10;
        if (ec == 70) ncand_total += 1;
      }
      done += todo;
    }
    return 0;
  }
  return 2;
}
