#include "ops_types.hpp"
using namespace smooth;
using BunA = Bundle<SO3d, Eigen::Vector2d, SE2d, SO2d>;
using BunB = Bundle<Bundle<SO2d, Eigen::Vector3d>, SE3d, C1d>;
using BunC = Bundle<SO3d, SO3d, Eigen::Matrix<double, 1, 1>>;
REG_C16(BunA, BunA);
REG_C16(BunB, BunB);
REG_C16(BunC, BunC);
