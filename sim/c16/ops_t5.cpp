#include "ops_types.hpp"
using namespace smooth;
using SE33d = SE_K_3<double, 3>;
using BunG = Bundle<Galileif, Eigen::Matrix<float, 1, 1>, C1f>;
using BunH = Bundle<Eigen::Vector3d, Bundle<SE2d, Bundle<SO3d, Eigen::Vector2d>>, SO2d>;
REG_C16(SE33d, SE33d);
REG_C16(BunG, BunG);
REG_C16(BunH, BunH);
