#include "ops_types.hpp"
using namespace smooth;
using SE33d = SE_K_3<double, 3>;
using BunG = Bundle<Galileif, Eigen::Matrix<float, 1, 1>, C1f>;
using BunH = Bundle<Eigen::Vector3d, Bundle<SE2d, Bundle<SO3d, Eigen::Vector2d>>, SO2d>;
REG_C16(SE33d, SE33d);
REG_C16(BunG, BunG);
REG_C16(BunH, BunH);
using Bun6 = Bundle<SO2d, Eigen::Vector2d, SO3d, C1d, SE2d, Eigen::Matrix<double, 1, 1>>;
using BunL = Bundle<SE2f, SE2f, Bundle<SO3f, Eigen::Vector2f>>;
REG_C16(Bun6, Bun6);
REG_C16(BunL, BunL);
