// Instrumented scenarios for the runtime selftest: small multi-threaded programs with a known
// verdict (race / no race / deadlock / wrong value possible), run under the simulator.
#include <semaphore.h>
#include <pthread.h>

#include <atomic>
#include <condition_variable>
#include <future>
#include <latch>
#include <memory>
#include <mutex>
#include <shared_mutex>
#include <thread>
#include <vector>

#include "scenarios.h"

namespace sc {

// ---- shared state of the scenarios (reset by reset()) ----
static int plain_counter;
static std::atomic<int> atomic_counter;
static std::mutex mtx;
static std::shared_mutex smtx;
static std::condition_variable cv;
static int queue_items;
static int consumed;
static std::once_flag once;
static int once_value;
static std::atomic<int> flag;
static int payload;
static std::mutex ma, mb;
static int table[8];
static long observed[16];
static std::atomic<int> aw_flag;
struct Tagged {
  long idx;
  long tag;
};
static std::atomic<Tagged> tagged;
static std::atomic<std::shared_ptr<const int>> asp;

static sem_t sem_ready;
static pthread_spinlock_t spin_l;
void reset() {
  sem_init(&sem_ready, 0, 0);
  pthread_spin_init(&spin_l, 0);
  plain_counter = 0;
  atomic_counter = 0;
  queue_items = 0;
  consumed = 0;
  once_value = 0;
  flag = 0;
  aw_flag = 0;
  tagged.store(Tagged{0, 0});
  asp.store(nullptr);
  payload = 0;
  for (auto& t : table) t = 0;
  for (auto& o : observed) o = -1;
  new (&once) std::once_flag();
}
long observed_of(int t) { return observed[t]; }
int final_counter() { return plain_counter + (int)tagged.load().idx; }

// 0: unsynchronised increment -> race
void s_plain_race(int) {
  for (int i = 0; i < 5; ++i) plain_counter++;
}
// 1: mutex protected increment -> no race, final = 5 * ntasks
void s_mutex(int) {
  for (int i = 0; i < 5; ++i) {
    std::lock_guard<std::mutex> l(mtx);
    plain_counter++;
  }
}
// 2: relaxed atomic counter -> no race
void s_atomic(int) {
  for (int i = 0; i < 5; ++i) atomic_counter.fetch_add(1, std::memory_order_relaxed);
}
// 3: release/acquire publication -> no race; reader sees payload 42 whenever it sees the flag
void s_publish_ok(int t) {
  if (t == 0) {
    payload = 42;
    flag.store(1, std::memory_order_release);
  } else {
    if (flag.load(std::memory_order_acquire) == 1) observed[t] = payload;
  }
}
// 4: relaxed publication -> race on payload
void s_publish_relaxed(int t) {
  if (t == 0) {
    payload = 42;
    flag.store(1, std::memory_order_relaxed);
  } else {
    if (flag.load(std::memory_order_relaxed) == 1) observed[t] = payload;
  }
}
// 5: flag published before the payload -> race, and a reader can observe 0
void s_publish_early(int t) {
  if (t == 0) {
    flag.store(1, std::memory_order_release);
    payload = 42;
  } else {
    if (flag.load(std::memory_order_acquire) == 1) observed[t] = payload;
  }
}
// 6: function-local static with dynamic initialisation -> no race, every task sees 7
static int make7() {
  int s = 0;
  for (int i = 0; i < 7; ++i) s += 1;
  return s;
}
void s_guard(int t) {
  static const int v = make7();
  observed[t] = v;
}
// 7: call_once -> no race
void s_once(int t) {
  std::call_once(once, [] { once_value = 11; });
  observed[t] = once_value;
}
// 8: shared_mutex: readers under shared lock, one writer under exclusive lock -> no race
void s_rwlock(int t) {
  if (t == 0) {
    std::unique_lock<std::shared_mutex> l(smtx);
    for (auto& x : table) x = 5;
  } else {
    std::shared_lock<std::shared_mutex> l(smtx);
    long s = 0;
    for (auto& x : table) s += x;
    observed[t] = s;  // 0 or 40, never in between
  }
}
// 9: writes under a SHARED lock -> race between two "readers"
void s_rwlock_bad(int t) {
  std::shared_lock<std::shared_mutex> l(smtx);
  table[0] = t;
}
// 10: condition variable producer/consumer -> no race, consumer sees the item
void s_condvar(int t) {
  if (t == 0) {
    std::lock_guard<std::mutex> l(mtx);
    queue_items = 3;
    cv.notify_all();
  } else {
    std::unique_lock<std::mutex> l(mtx);
    cv.wait(l, [] { return queue_items > 0; });
    observed[t] = queue_items;
  }
}
// 11: AB / BA lock order -> deadlock under some schedules
void s_deadlock(int t) {
  if (t == 0) {
    std::lock_guard<std::mutex> l1(ma);
    std::lock_guard<std::mutex> l2(mb);
    plain_counter++;
  } else {
    std::lock_guard<std::mutex> l1(mb);
    std::lock_guard<std::mutex> l2(ma);
    plain_counter++;
  }
}
// 12: heap blocks freed by one task and reused by another -> no race
void s_heap_reuse(int t) {
  for (int i = 0; i < 4; ++i) {
    std::vector<int> v(16, t);
    long s = 0;
    for (int x : v) s += x;
    observed[t] = s;
  }
}
// 13: thread_local scratch -> no race
void s_tls(int t) {
  thread_local int scratch[4];
  for (int i = 0; i < 4; ++i) scratch[i] = t + i;
  observed[t] = scratch[0] + scratch[3];
}
// 14: spin-wait on an atomic flag set by another task -> no race, must terminate (fair mode)
void s_spin(int t) {
  if (t == 0) {
    payload = 9;
    flag.store(1, std::memory_order_release);
  } else {
    while (flag.load(std::memory_order_acquire) == 0) {}
    observed[t] = payload;
  }
}
// 15: check-then-act under two critical sections -> no race, but a lost update is possible
void s_check_then_act(int) {
  int seen;
  {
    std::lock_guard<std::mutex> l(mtx);
    seen = plain_counter;
  }
  {
    std::lock_guard<std::mutex> l(mtx);
    plain_counter = seen + 1;
  }
}

// 16: std::atomic wait / notify (futex through the libc syscall wrapper) -> no race, waiter sees 9
void s_atomic_wait(int t) {
  if (t == 0) {
    payload = 9;
    aw_flag.store(1, std::memory_order_release);
    aw_flag.notify_all();
  } else {
    aw_flag.wait(0, std::memory_order_acquire);
    observed[t] = payload;
  }
}
// 17: both mutexes through std::scoped_lock in opposite argument orders -> never deadlocks
void s_scoped_lock(int t) {
  for (int i = 0; i < 3; ++i) {
    if (t % 2 == 0) {
      std::scoped_lock l(ma, mb);
      plain_counter++;
    } else {
      std::scoped_lock l(mb, ma);
      plain_counter++;
    }
  }
}
// 18: atomic<shared_ptr> publication with concurrent first construction -> no race, everyone sees 5
void s_atomic_shared_ptr(int t) {
  auto p = asp.load(std::memory_order_acquire);
  if (!p) {
    auto mine = std::make_shared<const int>(5);
    std::shared_ptr<const int> expected;
    if (asp.compare_exchange_strong(expected, mine, std::memory_order_acq_rel)) p = mine;
    else p = expected;
  }
  observed[t] = *p;
}
// 19: timed condition wait with a predicate that becomes true -> no race, no spurious failure
void s_cond_wait_for(int t) {
  if (t == 0) {
    std::lock_guard<std::mutex> l(mtx);
    queue_items = 3;
    cv.notify_all();
  } else {
    std::unique_lock<std::mutex> l(mtx);
    cv.wait_for(l, std::chrono::seconds(5), [] { return queue_items > 0; });
    observed[t] = queue_items;
  }
}

// 20: fence-based publication (release fence + relaxed store / relaxed load + acquire fence) -> no race
void s_fence_publish(int t) {
  if (t == 0) {
    payload = 42;
    std::atomic_thread_fence(std::memory_order_release);
    flag.store(1, std::memory_order_relaxed);
  } else {
    if (flag.load(std::memory_order_relaxed) == 1) {
      std::atomic_thread_fence(std::memory_order_acquire);
      observed[t] = payload;
    }
  }
}
// 21: the same without the acquire fence -> race
void s_fence_missing(int t) {
  if (t == 0) {
    payload = 42;
    std::atomic_thread_fence(std::memory_order_release);
    flag.store(1, std::memory_order_relaxed);
  } else {
    if (flag.load(std::memory_order_relaxed) == 1) observed[t] = payload;
  }
}

// 22: 16-byte atomic (tagged index) CAS loop + sleep_for back-off -> no race, counter exact
void s_tagged_cas(int) {
  for (int i = 0; i < 4; ++i) {
    Tagged cur = tagged.load(std::memory_order_acquire);
    for (;;) {
      Tagged next{cur.idx + 1, cur.tag + 1};
      if (tagged.compare_exchange_weak(cur, next, std::memory_order_acq_rel, std::memory_order_acquire)) break;
      std::this_thread::sleep_for(std::chrono::microseconds(5));
    }
  }
}

// 23: a task spawns a std::thread, the child works under the mutex, the parent joins -> no race
void s_spawn_join(int t) {
  if (t == 0) {
    std::thread child([] {
      std::lock_guard<std::mutex> l(mtx);
      plain_counter += 10;
    });
    {
      std::lock_guard<std::mutex> l(mtx);
      plain_counter += 1;
    }
    child.join();
    std::lock_guard<std::mutex> l(mtx);
    observed[0] = plain_counter >= 11 ? 1 : 0;  // after the join the child's update is visible
  } else {
    std::lock_guard<std::mutex> l(mtx);
    plain_counter += 1;
  }
}
// 24: the child writes a plain variable that the parent reads BEFORE joining -> race
void s_spawn_race(int t) {
  if (t == 0) {
    std::thread child([] { payload = 5; });
    observed[0] = payload;
    child.join();
  }
}
// 25: std::async + future.get() -> no race, value transferred
void s_async(int t) {
  auto f = std::async(std::launch::async, [t] { return 100 + t; });
  observed[t] = f.get();
}

// 26: far more threads over the run than there are thread slots, one after the other; their shared
// states (once-flags, futex words) come back at recycled addresses
void s_async_many(int t) {
  long sum = 0;
  for (int i = 0; i < 60; ++i) {
    auto f = std::async(std::launch::async, [t, i] { return t + i; });
    sum += f.get();
  }
  observed[t] = sum;  // 60 t + 1770
}
// 27: detached threads publish through an atomic counter; the creator waits for it
static std::atomic<int> detached_done{0};
void s_detach(int t) {
  if (t == 0) {
    for (int i = 0; i < 3; ++i) {
      std::thread([] {
        payload = 7;  // all three write the same plain variable without synchronisation -> race
        detached_done.fetch_add(1, std::memory_order_release);
      }).detach();
    }
    while (detached_done.load(std::memory_order_acquire) < 3) std::this_thread::yield();
    observed[0] = payload;
  }
}

// 28: a worker thread started on first use serves jobs from a queue and is never joined: when the
// callers have finished it is left waiting on its condition variable -> complete, not deadlocked
static std::once_flag pool_once;
static std::mutex pool_m;
static std::condition_variable pool_cv, pool_done_cv;
static int pool_jobs[8], pool_njobs = 0, pool_results[8], pool_ready[8];
void s_daemon(int t) {
  std::call_once(pool_once, [] {
    std::thread([] {
      std::unique_lock<std::mutex> l(pool_m);
      for (;;) {
        pool_cv.wait(l, [] { return pool_njobs > 0; });
        int who = pool_jobs[--pool_njobs];
        pool_results[who] = 1000 + who;
        pool_ready[who] = 1;
        pool_done_cv.notify_all();
      }
    }).detach();
  });
  std::unique_lock<std::mutex> l(pool_m);
  pool_jobs[pool_njobs++] = t;
  pool_cv.notify_one();
  pool_done_cv.wait(l, [t] { return pool_ready[t] != 0; });
  observed[t] = pool_results[t];
}

// 29: POSIX semaphore as a hand-off (post -> wait is a happens-before edge) and a spin lock as a mutex
void s_sem_spin(int t) {
  // sem_ready / spin_l are initialised by reset() before the run
  if (t == 0) {
    payload = 42;
    sem_post(&sem_ready);
    sem_post(&sem_ready);
    sem_post(&sem_ready);
  } else {
    sem_wait(&sem_ready);
    observed[t] = payload;  // ordered after the write by post -> wait
  }
  for (int i = 0; i < 3; ++i) {
    pthread_spin_lock(&spin_l);
    plain_counter += 1;
    pthread_spin_unlock(&spin_l);
  }
}

static const Scenario kScenarios[] = {
  {"plain_race", s_plain_race},       {"mutex", s_mutex},         {"atomic", s_atomic},
  {"publish_ok", s_publish_ok},       {"publish_relaxed", s_publish_relaxed},
  {"publish_early", s_publish_early}, {"guard", s_guard},         {"call_once", s_once},
  {"rwlock", s_rwlock},               {"rwlock_bad", s_rwlock_bad}, {"condvar", s_condvar},
  {"deadlock", s_deadlock},           {"heap_reuse", s_heap_reuse}, {"tls", s_tls},
  {"spin", s_spin},                   {"check_then_act", s_check_then_act},
  {"atomic_wait", s_atomic_wait},     {"scoped_lock", s_scoped_lock},
  {"atomic_shared_ptr", s_atomic_shared_ptr}, {"cond_wait_for", s_cond_wait_for},
  {"fence_publish", s_fence_publish}, {"fence_missing", s_fence_missing},
  {"tagged_cas", s_tagged_cas},      {"spawn_join", s_spawn_join},
  {"spawn_race", s_spawn_race},       {"async", s_async},
  {"async_many", s_async_many},       {"detach", s_detach},
  {"daemon", s_daemon},               {"sem_spin", s_sem_spin},
};
const Scenario* scenarios() { return kScenarios; }
int n_scenarios() { return (int)(sizeof kScenarios / sizeof kScenarios[0]); }

}  // namespace sc
