// Runtime selftest driver (uninstrumented): runs each scenario under many seeds and strategies in
// forked children and checks the verdicts the simulator must reach.
#include <sys/mman.h>
#include <sys/wait.h>
#include <unistd.h>

#include <cstdio>
#include <cstdlib>
#include <cstring>

#include "../rt/sim.h"
#include <vector>

#include "scenarios.h"

constexpr size_t kSwCap = 1u << 16;
struct Shm {
  sim::Result res;
  long observed[16];
  int counter;
  int done;
  volatile size_t n_sw;
  sim::Switch sw[kSwCap];
};
static Shm* shm;
static const sc::Scenario* cur;
static void body(int t, void*) {
  sim::op_begin(0);
  cur->body(t);
  sim::op_end();
}

// Is this pc inside a trusted standard-library primitive?  (resolved through addr2line because the
// functions in question are inlined; only the DWARF inline records know their names)
static bool pc_in_trusted_stdlib(unsigned pc) {
  static unsigned cache_pc[64];
  static int cache_val[64], ncache = 0;
  for (int i = 0; i < ncache; ++i)
    if (cache_pc[i] == pc) return cache_val[i];
  char cmd[256], line[1024] = "";
  snprintf(cmd, sizeof cmd, "addr2line -f -C -e /proc/%d/exe 0x%x", (int)getpid(), pc);
  FILE* f = popen(cmd, "r");
  bool v = false;
  if (f) {
    if (fgets(line, sizeof line, f)) v = strstr(line, "std::_Sp_atomic<") != nullptr;
    pclose(f);
  }
  if (ncache < 64) { cache_pc[ncache] = pc; cache_val[ncache++] = v; }
  return v;
}

struct Tally {
  int runs = 0, race = 0, deadlock = 0, budget = 0, fair = 0, unsupported = 0, crashed = 0;
  int wrong_obs = 0, lost_update = 0, suppressed = 0;
};

int main(int argc, char** argv) {
  sim::init();
  shm = (Shm*)mmap(nullptr, sizeof(Shm), PROT_READ | PROT_WRITE, MAP_SHARED | MAP_ANONYMOUS, -1, 0);
  int seeds = argc > 1 ? atoi(argv[1]) : 60;
  int fails = 0;
  for (int si = 0; si < sc::n_scenarios(); ++si) {
    cur = &sc::scenarios()[si];
    Tally ty;
    unsigned long long h1 = 0, h2 = 0, h3 = 0;
    // pass 0 and 1: the same seeds twice (determinism); pass 2: every run of pass 0 again from its
    // recorded switch list under the `explicit` strategy (replay)
    static std::vector<std::vector<sim::Switch>> recorded;
    recorded.assign((size_t)seeds + 1, {});
    int replay_truncated = 0;
    for (int rep = 0; rep < 3; ++rep) {
      unsigned long long hh = 0;
      Tally t2;
      for (int seed = 1; seed <= seeds; ++seed) {
        memset(shm, 0, sizeof *shm);
        pid_t pid = fork();
        if (pid == 0) {
          sc::reset();
          sim::Config cfg;
          cfg.ntasks = 2 + seed % 3;
          cfg.seed = (unsigned long long)seed * 7919;
          static const int strat[] = {sim::S_WALK, sim::S_PCT, sim::S_SYNC, sim::S_WALK, sim::S_SERIAL};
          cfg.strategy = strat[seed % 5];
          cfg.p = (seed % 2) ? 0.3 : 0.05;
          cfg.pct_depth = 1 + seed % 3;
          cfg.pct_k = 200;
          cfg.fair_after = 20000;
          cfg.max_events = 400000;
          cfg.sw_buf = shm->sw;
          cfg.sw_cap = kSwCap;
          cfg.sw_count = &shm->n_sw;
          if (rep == 2) {
            cfg.strategy = sim::S_EXPLICIT;
            cfg.explicit_sw = recorded[(size_t)seed].data();
            cfg.n_explicit = recorded[(size_t)seed].size();
          }
          sim::run(cfg, body, nullptr, shm->res);
          for (int t = 0; t < 16; ++t) shm->observed[t] = sc::observed_of(t);
          shm->counter = sc::final_counter();
          shm->done = 1;
          _exit(0);
        }
        int st = 0;
        waitpid(pid, &st, 0);
        const sim::Result& r = shm->res;
        if (rep == 0) {
          if (shm->n_sw >= kSwCap || r.fair_mode_entered) replay_truncated++, recorded[(size_t)seed].clear();
          else recorded[(size_t)seed].assign(shm->sw, shm->sw + shm->n_sw);
        }
        t2.runs++;
        if (!shm->done && !r.deadlock && !r.budget_exhausted && !r.unsupported) t2.crashed++;
        bool only_stdlib = r.races_total > 0;
        for (size_t i = 0; i < r.n_races; ++i)
          if (!(pc_in_trusted_stdlib(r.races[i].pc_cur) && pc_in_trusted_stdlib(r.races[i].pc_prev))) only_stdlib = false;
        if (only_stdlib) t2.suppressed++;
        if (r.races_total && !only_stdlib) {
          t2.race++;
          if (getenv("RTSELF_VERBOSE") && rep == 0)
            for (size_t i = 0; i < r.n_races && i < 3; ++i)
              printf("   %s seed %d: race pc_cur=%x (t%d %c) pc_prev=%x (t%d %c) class=%d size=%u\n", cur->name, seed, r.races[i].pc_cur,
                     r.races[i].task_cur, r.races[i].w_cur ? 'W' : 'R', r.races[i].pc_prev, r.races[i].task_prev,
                     r.races[i].w_prev ? 'W' : 'R', r.races[i].addr_class, r.races[i].size);
        }
        if (r.deadlock) t2.deadlock++;
        if (r.budget_exhausted) t2.budget++;
        if (r.fair_mode_entered) t2.fair++;
        if (r.unsupported) t2.unsupported++;
        if (rep == 2 && recorded[(size_t)seed].empty()) continue;  // not replayable (fair mode / very long)
        hh = hh * 1000003ull + r.log_hash + r.races_total + (unsigned long long)r.deadlock;
        int nt = 2 + seed % 3;
        const char* n = cur->name;
        if (shm->done) {
          for (int t = 1; t < nt; ++t) {
            long o = shm->observed[t];
            if ((!strcmp(n, "publish_ok") || !strcmp(n, "publish_relaxed") || !strcmp(n, "publish_early") || !strcmp(n, "fence_publish") || !strcmp(n, "fence_missing")) && o != -1 && o != 42) t2.wrong_obs++;
            if (!strcmp(n, "rwlock") && o != 0 && o != 40) t2.wrong_obs++;
            if (!strcmp(n, "condvar") && o != 3) t2.wrong_obs++;
            if (!strcmp(n, "sem_spin") && o != 42) t2.wrong_obs++;
            if (!strcmp(n, "spin") && o != 9) t2.wrong_obs++;
            if (!strcmp(n, "atomic_wait") && o != 9) t2.wrong_obs++;
            if (!strcmp(n, "cond_wait_for") && o != 3) t2.wrong_obs++;
          }
          for (int t = 0; t < nt; ++t) {
            long o = shm->observed[t];
            if (!strcmp(n, "guard") && o != 7) t2.wrong_obs++;
            if (!strcmp(n, "call_once") && o != 11) t2.wrong_obs++;
            if (!strcmp(n, "heap_reuse") && o != 16L * t) t2.wrong_obs++;
            if (!strcmp(n, "tls") && o != 2L * t + 3) t2.wrong_obs++;
            if (!strcmp(n, "atomic_shared_ptr") && o != 5) t2.wrong_obs++;
            if (!strcmp(n, "async") && o != 100 + t) t2.wrong_obs++;
            if (!strcmp(n, "daemon") && o != 1000 + t) t2.wrong_obs++;
            if (!strcmp(n, "async_many") && o != 60L * t + 1770) t2.wrong_obs++;
            if (!strcmp(n, "detach") && t == 0 && o != 7) t2.wrong_obs++;
            if (!strcmp(n, "spawn_join") && t == 0 && o != 1) t2.wrong_obs++;
          }
          if (!strcmp(n, "mutex") && shm->counter != 5 * nt) t2.lost_update++;
          if (!strcmp(n, "sem_spin") && shm->counter != 3 * nt) t2.lost_update++;
          if (!strcmp(n, "scoped_lock") && shm->counter != 3 * nt) t2.lost_update++;
          if (!strcmp(n, "tagged_cas") && shm->counter != 4 * nt) t2.lost_update++;
          if (!strcmp(n, "spawn_join") && shm->counter != 10 + nt) t2.lost_update++;
          if (!strcmp(n, "check_then_act") && shm->counter != nt) t2.lost_update++;
        }
      }
      if (rep == 0) { h1 = hh; ty = t2; } else if (rep == 1) h2 = hh; else h3 = hh;
    }
    const char* n = cur->name;
    bool ok = true;
    const char* why = "";
    auto need = [&](bool c, const char* w) { if (!c && ok) { ok = false; why = w; } };
    need(h1 == h2, "not deterministic");
    if (!replay_truncated) need(h1 == h3, "replay from the recorded switch list differs");
    need(ty.unsupported == 0, "unsupported primitive");
    need(ty.crashed == 0, "crashed");
    bool expect_race = !strcmp(n, "plain_race") || !strcmp(n, "publish_relaxed") || !strcmp(n, "publish_early") || !strcmp(n, "rwlock_bad") || !strcmp(n, "fence_missing") || !strcmp(n, "spawn_race") || !strcmp(n, "detach");
    if (expect_race) need(ty.race > 0, "race not detected");
    else need(ty.race == 0, "false race");
    if (!strcmp(n, "plain_race") || !strcmp(n, "rwlock_bad")) need(ty.race == ty.runs, "race must be reported in every run that contains both accesses");
    if (!strcmp(n, "deadlock")) need(ty.deadlock > 0 && ty.deadlock < ty.runs, "deadlock under some but not all schedules");
    else need(ty.deadlock == 0, "false deadlock");
    need(ty.budget == 0, "run did not terminate");
    if (!strcmp(n, "publish_early")) need(ty.wrong_obs > 0, "stale payload never observed");
    else need(ty.wrong_obs == 0, "wrong value observed");
    if (!strcmp(n, "check_then_act")) need(ty.lost_update > 0, "lost update never produced");
    else need(ty.lost_update == 0, "lost update");
    printf("%-18s %s  runs=%d race=%d deadlock=%d fair=%d wrong_obs=%d lost=%d stdlib_suppressed=%d %s\n", n, ok ? "ok  " : "FAIL", ty.runs,
           ty.race, ty.deadlock, ty.fair, ty.wrong_obs, ty.lost_update, ty.suppressed, why);
    if (!ok) fails++;
  }
  printf("runtime selftest: %d scenario(s) failed\n", fails);
  return fails ? 2 : 0;
}
