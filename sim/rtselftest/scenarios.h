#pragma once
namespace sc {
struct Scenario {
  const char* name;
  void (*body)(int task);
};
const Scenario* scenarios();
int n_scenarios();
void reset();
long observed_of(int t);
int final_counter();
}  // namespace sc
