// Deterministic simulation runtime for pettni/smooth — public interface used by the harnesses.
//
// The runtime implements the ThreadSanitizer ABI (__tsan_*) itself, so that every load and store
// of code compiled with -fsanitize=thread becomes an event it sees, and interposes the
// synchronisation primitives the instrumented code can reach (static-init guards, pthread
// mutexes, pthread_once, clock_gettime, allocation).  Simulated caller threads ("tasks") are real
// pthreads of which exactly one runs at any instant; a seeded scheduler decides every hand-off.
//
// Nothing in here may be compiled with -fsanitize=thread.
#pragma once
#include <cstddef>
#include <cstdint>

namespace sim {

constexpr int kMaxTasks = 250;     // simulated threads per run, including threads the code under test creates
constexpr int kMaxCallerTasks = 16; // caller threads of a workload (the property speaks of 2..16)

enum Strategy : int {
  S_SERIAL = 0,   // run tasks to completion in index order
  S_OPGRAIN = 1,  // switch only at operation boundaries
  S_SYNC = 2,     // switch only at synchronisation events and operation boundaries
  S_WALK = 3,     // every yield point may switch (probability p), uniformly random target
  S_PCT = 4,      // PCT: random priorities, d-1 priority change points
  S_EXPLICIT = 5, // follow an explicit switch list (replay)
  S_LOCKSTEP = 6  // hand the baton on after every successful lock acquisition (lock-order search)
};

enum EvKind : int {
  EV_READ = 0,
  EV_WRITE = 1,
  EV_ATOMIC = 2,
  EV_GUARD = 3,
  EV_MUTEX = 4,
  EV_ALLOC = 5,
  EV_CLOCK = 6,
  EV_OPB = 7,
  EV_OPE = 8,
  EV_START = 9,
  EV_EXIT = 10,
  EV_ONCE = 11,
  EV_NKINDS = 12
};

enum FaultKind : int {
  F_PREEMPT = 0,  // forced switch at (task, op, off) to a seeded target
  F_STALL = 1,    // task frozen at (task, op, off) until `arg` further operations completed elsewhere
  F_LATE = 2,     // task not eligible before global step `arg`
  F_CLOCK = 3,    // the simulated clock jumps forward by `arg` nanoseconds when (task, op, off) is reached
  F_NKINDS = 4
};

// A scheduling point is named by (task, operation index within the task, event offset inside it),
// never by a global index, so that dropping operations or switches during minimisation does not
// shift the meaning of the entries that remain.  op = -1 is "before the first operation".
struct Switch {
  int32_t task;
  int32_t op;
  uint64_t off;
  int32_t to;
  int32_t forced;  // 1: the running task blocked / finished / was stalled
};

struct Fault {
  int32_t kind;
  int32_t task;
  int32_t op;
  uint64_t off;
  uint64_t arg;
  int32_t fired;
};

struct Race {
  uintptr_t addr;
  uint32_t size;
  int32_t task_cur, task_prev;
  int32_t w_cur, w_prev;
  uint32_t pc_cur, pc_prev;
  int32_t op_cur, op_prev;
  int32_t region_id;       // registered region containing addr, or -1
  uint64_t region_off;
  int32_t addr_class;      // 0 pool/registered, 1 static data, 2 heap, 3 another task's stack, 4 other
  uint64_t count;
};

struct Config {
  int ntasks = 0;
  int strategy = S_SERIAL;
  uint64_t seed = 0;        // scheduler PRNG seed
  double p = 0.0;           // switch probability (walk / sync / opgrain)
  int pct_depth = 1;
  uint64_t pct_k = 0;       // estimated number of yield points (from the solo reference runs)
  uint64_t max_events = 0;  // hard cap (0 = none) -> budget_exhausted
  uint64_t fair_after = 0;  // after this many events: round-robin quantum scheduling (0 = never)
  const Switch* explicit_sw = nullptr;
  size_t n_explicit = 0;
  Fault* faults = nullptr;  // `fired` is written back
  size_t n_faults = 0;
  size_t stack_bytes = 4u << 20;
  bool adopt_threads = false; // take over the threads the previous run of this process left waiting (a worker pool)
  bool track_memory = true; // false: plain memory accesses are neither events nor checked (preparation runs)
  // optional caller-provided switch log (e.g. in shared memory, so that it survives a crash of
  // the process that runs the simulation); the count is kept in *sw_count
  Switch* sw_buf = nullptr;
  size_t sw_cap = 0;
  volatile size_t* sw_count = nullptr;
};

constexpr size_t kMaxRaces = 48;
constexpr size_t kMaxSwitches = 1u << 20;

struct Result {
  uint64_t events = 0;          // yield points == simulated time
  uint64_t switches = 0;
  uint64_t forced_switches = 0;
  uint64_t ev_by_kind[EV_NKINDS] = {};
  uint64_t log_hash = 0;        // hash over every yield point (task, kind, size, pc)
  uint64_t sched_hash = 0;      // hash over the switch list
  uint64_t conflict_sig = 0;    // order of synchronisation events + accesses to contended words
  uint64_t conflict_events = 0;
  uint64_t races_total = 0;
  size_t n_races = 0;
  Race races[kMaxRaces];
  uint64_t guard_init_in_sim = 0;   // static initialisers executed inside the simulated interval
  uint64_t guard_block = 0;         // a task found a guard in progress and was blocked
  uint64_t preempt_in_init = 0;     // switches away from a task that was inside a static initialiser
  uint64_t mutex_block = 0;
  uint64_t dynamic_threads = 0;     // threads created by the code under test inside the simulation
  uint64_t adopted_threads = 0;     // threads taken over from the previous run of this process
  uint64_t daemon_threads = 0;      // of those: still waiting for something when every caller thread had finished
  uint64_t fault_fired[F_NKINDS] = {};
  uint64_t events_by_class[5] = {};
  uint64_t task_events[kMaxTasks] = {};
  int deadlock = 0;
  int budget_exhausted = 0;
  int fair_mode_entered = 0;
  int unsupported = 0;              // an unmodelled blocking primitive was reached
  char unsupported_what[64] = {};
  size_t n_switches = 0;
  Switch* switch_log = nullptr;     // points into runtime memory (or Config::sw_buf), valid until next run()
  volatile int cur_task = -1;       // who held the baton last (for crash reports)
  volatile int cur_op = -1;
  // filled when a run ends abnormally (deadlock, budget): what every task was doing
  int end_state[kMaxTasks] = {};    // 0 new, 1 runnable, 2 blocked, 3 stalled, 4 done
  int end_op[kMaxTasks] = {};
  uintptr_t end_blocked_on[kMaxTasks] = {};
  uint32_t end_blocked_pc[kMaxTasks] = {};
};

typedef void (*TaskBody)(int task, void* arg);

// Must be called once, early in main(), before any other call.
void init();

// Run `body(task, arg)` for task = 0..ntasks-1 as simulated threads under `cfg`.  Returns when all
// tasks finished, or on deadlock / budget exhaustion (in which case the task threads are left
// parked: callers run this in a disposable process).
void run(const Config& cfg, TaskBody body, void* arg, Result& res);

// Called by the harness from inside a task, around every harness-level operation.
void op_begin(int op_index);
void op_end();

// Number of operations completed by all tasks so far (usable by harness for diagnostics).
uint64_t ops_done();

// Regions used to classify addresses in reports (pool objects, arenas).
void register_region(const void* p, size_t n, int id);
void clear_regions();

// ---- write-set recorder (used by the C16 engine; independent of the scheduler) ----
// While recording, every intercepted store of the calling process that overlaps [alo,ahi) is
// logged (address, size, pc), whether or not a simulation is running.
struct WsRec {
  uintptr_t addr;
  uint32_t size;
  uint32_t pc;
};
void ws_begin(const void* alo, const void* ahi);
void ws_end();
size_t ws_count();            // number of records (capped at ws_capacity(); overflow flagged)
const WsRec* ws_recs();
bool ws_overflow();
uint64_t ws_total_writes();   // all intercepted writes seen while recording (inside or outside)

// True while the calling thread is a simulated task inside run().
bool in_task();

// Simulated time (global event sequence number).
uint64_t now();

}  // namespace sim
