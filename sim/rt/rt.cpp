// Deterministic simulation runtime (see sim.h).  Compiled WITHOUT -fsanitize=thread.
//
// Rules for this file (each one was a real failure in a prototype):
//  * no function-local statics with dynamic initialisation (they would recurse into our own
//    __cxa_guard_acquire);
//  * no std containers / operator new (our own operator new is a wrapped, event-generating
//    allocation) — all memory comes from mmap;
//  * is_write / pc travel as parameters, never through globals that could go stale across a
//    context switch.
#include "sim.h"

#include <dlfcn.h>
#include <errno.h>
#include <linux/futex.h>
#include <malloc.h>
#include <pthread.h>
#include <semaphore.h>
#include <signal.h>
#include <stdarg.h>
#include <stdio.h>
#include <stdlib.h>
#include <string.h>
#include <sys/mman.h>
#include <sys/syscall.h>
#include <time.h>
#include <unistd.h>

#include <new>

extern "C" void* __real_memcpy(void*, const void*, size_t);
extern "C" void* __real_memset(void*, int, size_t);
extern "C" char __executable_start;
extern "C" char _end;

namespace sim {
namespace {

// ------------------------------------------------------------------------------------------
// small utilities
// ------------------------------------------------------------------------------------------

[[noreturn]] void die(const char* fmt, ...) {
  char buf[512];
  va_list ap;
  va_start(ap, fmt);
  int n = vsnprintf(buf, sizeof buf, fmt, ap);
  va_end(ap);
  if (n > 0) { (void)!write(2, buf, (size_t)n); (void)!write(2, "\n", 1); }
  _exit(2);
}

void* xmmap(size_t n) {
  void* p = mmap(nullptr, n, PROT_READ | PROT_WRITE, MAP_PRIVATE | MAP_ANONYMOUS | MAP_NORESERVE, -1, 0);
  if (p == MAP_FAILED) die("sim: mmap(%zu) failed", n);
  return p;
}

inline uint64_t mix64(uint64_t x) {
  x += 0x9e3779b97f4a7c15ull;
  x = (x ^ (x >> 30)) * 0xbf58476d1ce4e5b9ull;
  x = (x ^ (x >> 27)) * 0x94d049bb133111ebull;
  return x ^ (x >> 31);
}

struct Rng {
  uint64_t s;
  uint64_t next() { return mix64(s += 0x9e3779b97f4a7c15ull); }
  double uniform() { return (double)(next() >> 11) * (1.0 / 9007199254740992.0); }
  uint64_t below(uint64_t n) { return n ? next() % n : 0; }
};

// raw system call (the libc wrapper `syscall` is interposed further down to model futex waits)
inline long raw_syscall6(long n, long a, long b, long c, long d, long e, long f) {
  long ret;
  register long r10 __asm__("r10") = d;
  register long r8 __asm__("r8") = e;
  register long r9 __asm__("r9") = f;
  __asm__ volatile("syscall" : "=a"(ret) : "a"(n), "D"(a), "S"(b), "d"(c), "r"(r10), "r"(r8), "r"(r9) : "rcx", "r11", "memory");
  return ret;
}
inline long futex(int* addr, int op, int val) { return raw_syscall6(SYS_futex, (long)addr, op, val, 0, 0, 0); }

// ------------------------------------------------------------------------------------------
// state
// ------------------------------------------------------------------------------------------

constexpr int kClockN = kMaxTasks + 1;

enum TState : int { T_NEW = 0, T_RUN, T_BLOCKED, T_STALLED, T_DONE };

struct Task {
  int id;
  pthread_t th;
  int wake;  // futex word
  int state;
  uint32_t vc[kClockN];
  uint64_t local_events;
  int cur_op;
  uint64_t op_start;
  uintptr_t stack_lo;
  size_t stack_sz;
  int in_rt;
  int in_init;
  uintptr_t blocked_on;
  uint64_t stall_until_ops;
  uint64_t late_until;
  int prio;
  size_t fault_head;  // index into per-task fault order
  int cond_signalled;
  int timed_wait;
  uint32_t blocked_pc;
  uint32_t last_pc;
  // fences: a release fence makes later relaxed stores of this task release its clock as of the
  // fence; an acquire fence makes earlier relaxed loads acquire what they read from
  int has_rel_fence;
  uint32_t rel_fence_vc[kClockN];
  uint32_t acq_pending_vc[kClockN];
  // threads created by the code under test (std::thread / std::async inside an operation)
  int dynamic;
  void* (*ufn)(void*);
  void* uarg;
  void* uret;
  int parent;
  int detached;  // pthread_detach was called on it
  int exit_gate; // futex word: the real thread leaves only while its joiner holds the baton and waits for it
  int reaped;    // joined (or detached and finished): the slot may serve a later thread
};

enum SKind : int { SK_ATOMIC = 0, SK_MUTEX = 1, SK_GUARD = 2, SK_ONCE = 3 };
enum GState : int { G_UNINIT = 0, G_INPROGRESS = 1, G_DONE = 2 };

struct SyncObj {
  uintptr_t addr;  // 0 = empty
  int kind;
  int owner;  // mutex / guard owner task, -1 none
  int state;  // guard state
  int recursion;
  uint32_t vc[kClockN];
};

constexpr size_t kSyncSlots = 1u << 14;

// ---- shadow memory: two level; cell per 8-byte word, 4 slots per cell ----
struct Slot {
  uint32_t epoch;
  uint32_t pc;
  uint8_t task;
  uint8_t mask;
  uint8_t flags;  // bit0 valid, bit1 write
  uint8_t pad;
  int32_t op;
};
constexpr int kSlots = 4;
struct Cell {
  Slot s[kSlots];
};
constexpr size_t kChunkWords = 512;  // one 4 KiB application page
struct PageEnt {
  uintptr_t page;  // app page number + 1 (0 = empty)
  Cell* cells;
};
constexpr size_t kPageSlots = 1u << 16;
constexpr size_t kCellArena = (size_t)1 << 31;  // 2 GiB virtual, NORESERVE, touched on demand

struct Region {
  uintptr_t lo, hi;
  int id;
};
constexpr size_t kMaxRegions = 4096;

struct Global {
  int active;
  int ntasks;
  Config cfg;
  Result* res;
  Task tasks[kMaxTasks];
  int cur;
  uint64_t step;
  uint64_t clock_offset;  // injected clock jumps (ns)
  uint64_t ops_done;
  Rng rng;
  // strategy state
  uint64_t walk_skip;
  uint64_t pct_change[8];
  int pct_nchange;
  int pct_low;
  size_t exp_head;
  int fair;
  uint64_t quantum;
  // faults ordered per task
  size_t fault_idx[kMaxCallerTasks][64];
  size_t fault_cnt[kMaxCallerTasks];
  // controller
  int ctl_wake;
  int ready;
  int release_gate;
  int run_over;  // abnormal end
  TaskBody body;
  void* body_arg;
  // tables
  SyncObj* sync;
  PageEnt* pages;
  char* cell_arena;
  size_t cell_used;
  PageEnt last_page;
  Switch* swlog;
  // regions
  Region regions[kMaxRegions];
  size_t nregions;
  // threads of the code under test that are still waiting when a run ends can be taken into the next run
  int prev_ntasks;
  uint32_t carry_vc[kClockN];
};

Global g;
__thread Task* tl_task;

// write-set recorder
struct Ws {
  int active;
  uintptr_t lo, hi;
  size_t n;
  int overflow;
  uint64_t total;
  WsRec* recs;
};
Ws ws;
constexpr size_t kWsCap = 1u << 16;

// real functions
typedef int (*pthread_create_t)(pthread_t*, const pthread_attr_t*, void* (*)(void*), void*);
typedef int (*pthread_join_t)(pthread_t, void**);
typedef int (*pthread_detach_t)(pthread_t);
typedef int (*mutex_fn_t)(pthread_mutex_t*);
typedef int (*once_t)(pthread_once_t*, void (*)(void));
typedef int (*cond_wait_t)(pthread_cond_t*, pthread_mutex_t*);
typedef int (*cond_timedwait_t)(pthread_cond_t*, pthread_mutex_t*, const struct timespec*);
typedef int (*rwlock_fn_t)(pthread_rwlock_t*);
typedef int (*sem_fn_t)(sem_t*);
typedef int (*spin_fn_t)(pthread_spinlock_t*);
typedef int (*nanosleep_t)(const struct timespec*, struct timespec*);
typedef int (*usleep_t)(useconds_t);
typedef int (*sched_yield_t)(void);

pthread_create_t real_pthread_create;
pthread_join_t real_pthread_join;
pthread_detach_t real_pthread_detach;
mutex_fn_t real_mutex_lock, real_mutex_unlock, real_mutex_trylock;
once_t real_once;
cond_wait_t real_cond_wait;
cond_timedwait_t real_cond_timedwait;
rwlock_fn_t real_rdlock, real_wrlock, real_rwunlock, real_tryrdlock, real_trywrlock;
typedef int (*cond_fn_t)(pthread_cond_t*);
cond_fn_t real_cond_signal, real_cond_broadcast;
sem_fn_t real_sem_wait, real_sem_trywait, real_sem_post;
spin_fn_t real_spin_lock, real_spin_trylock, real_spin_unlock;
nanosleep_t real_nanosleep;
usleep_t real_usleep;
sched_yield_t real_sched_yield;
int g_inited;

inline Task* live_task() {
  Task* t = tl_task;
  if (!t || !g.active || t->in_rt) return nullptr;
  return t;
}

// ------------------------------------------------------------------------------------------
// parking
// ------------------------------------------------------------------------------------------

void park(int* w) {
  for (;;) {
    if (__atomic_load_n(w, __ATOMIC_ACQUIRE) != 0) break;
    futex(w, FUTEX_WAIT_PRIVATE, 0);
  }
  __atomic_store_n(w, 0, __ATOMIC_RELAXED);
}
void unpark(int* w) {
  __atomic_store_n(w, 1, __ATOMIC_RELEASE);
  futex(w, FUTEX_WAKE_PRIVATE, 1);
}

[[noreturn]] void park_forever() {
  int never = 0;
  for (;;) futex(&never, FUTEX_WAIT_PRIVATE, 0);
}

void end_run_abnormally() {
  for (int i = 0; i < g.ntasks; ++i) {
    g.res->end_state[i] = g.tasks[i].state;
    g.res->end_op[i] = g.tasks[i].cur_op;
    g.res->end_blocked_on[i] = g.tasks[i].blocked_on;
    g.res->end_blocked_pc[i] = g.tasks[i].blocked_pc;
  }
  g.run_over = 1;
  g.active = 0;
  unpark(&g.ctl_wake);
  park_forever();
}

// ------------------------------------------------------------------------------------------
// scheduler
// ------------------------------------------------------------------------------------------

inline bool eligible(const Task& t) {
  return t.state == T_RUN && t.late_until <= g.step;
}

// release stalled / late tasks when nothing else can run (faults never cause a deadlock)
bool release_held() {
  bool any = false;
  for (int i = 0; i < g.ntasks; ++i) {
    Task& t = g.tasks[i];
    if (t.state == T_STALLED) { t.state = T_RUN; any = true; }
    if (t.state == T_RUN && t.late_until > g.step) { t.late_until = 0; any = true; }
  }
  if (!any) {
    // a timed condition wait times out when nothing else in the system can make progress
    bool callers_done = true;
    for (int i = 0; i < g.ntasks; ++i)
      if (!g.tasks[i].dynamic && g.tasks[i].state != T_DONE) callers_done = false;
    for (int i = 0; i < g.ntasks; ++i) {
      Task& t = g.tasks[i];
      if (t.dynamic && callers_done) continue;  // a polling worker does not keep a finished run alive
      if (t.state == T_BLOCKED && t.timed_wait) {
        t.state = T_RUN;
        t.blocked_on = 0;
        any = true;
        break;
      }
    }
  }
  return any;
}

void check_stalled() {
  for (int i = 0; i < g.ntasks; ++i) {
    Task& t = g.tasks[i];
    if (t.state == T_STALLED && g.ops_done >= t.stall_until_ops) t.state = T_RUN;
  }
}

int count_eligible(int except) {
  int n = 0;
  for (int i = 0; i < g.ntasks; ++i)
    if (i != except && eligible(g.tasks[i])) ++n;
  return n;
}

int random_eligible(int except) {
  int n = count_eligible(except);
  if (!n) return -1;
  int k = (int)g.rng.below((uint64_t)n);
  for (int i = 0; i < g.ntasks; ++i)
    if (i != except && eligible(g.tasks[i])) {
      if (k-- == 0) return i;
    }
  return -1;
}

int lowest_eligible(int except) {
  for (int i = 0; i < g.ntasks; ++i)
    if (i != except && eligible(g.tasks[i])) return i;
  return -1;
}

int next_rr(int cur) {
  for (int d = 1; d <= g.ntasks; ++d) {
    int i = (cur + d) % g.ntasks;
    if (i != cur && eligible(g.tasks[i])) return i;
  }
  return -1;
}

int pct_best(int except) {
  int best = -1;
  for (int i = 0; i < g.ntasks; ++i)
    if (i != except && eligible(g.tasks[i]))
      if (best < 0 || g.tasks[i].prio > g.tasks[best].prio) best = i;
  return best;
}

inline int cmp_pos(int op_a, uint64_t off_a, int op_b, uint64_t off_b) {
  if (op_a != op_b) return op_a < op_b ? -1 : 1;
  if (off_a != off_b) return off_a < off_b ? -1 : 1;
  return 0;
}

void log_switch(int from, int op, uint64_t off, int to, int cause) {
  Result& r = *g.res;
  r.switches++;
  if (cause == 1 || cause == 2) r.forced_switches++;
  size_t cap = g.cfg.sw_buf ? g.cfg.sw_cap : kMaxSwitches;
  if (r.n_switches < cap) {
    Switch& s = (g.cfg.sw_buf ? g.cfg.sw_buf : g.swlog)[r.n_switches++];
    if (g.cfg.sw_count) *g.cfg.sw_count = r.n_switches;
    s.task = from;
    s.op = op;
    s.off = off;
    s.to = to;
    s.forced = cause;
  }
  r.sched_hash = mix64(r.sched_hash ^ ((uint64_t)(from + 1) << 56) ^ ((uint64_t)(to + 1) << 48) ^
                       ((uint64_t)(uint32_t)(op + 1) << 24) ^ mix64(off));
}

// hand the baton from t (running) to task `to`; returns when t is scheduled again
void do_switch(Task* t, int to, int cause) {
  uint64_t off = t->local_events - t->op_start;
  log_switch(t->id, t->cur_op, off, to, cause);
  if (t->in_init > 0) g.res->preempt_in_init++;
  g.cur = to;
  g.res->cur_task = to;
  g.res->cur_op = g.tasks[to].cur_op;
  unpark(&g.tasks[to].wake);
  park(&t->wake);
  g.res->cur_task = t->id;
  g.res->cur_op = t->cur_op;
}

// explicit schedule: does the head entry name this exact point of task t?
int explicit_lookup(Task* t, uint64_t off) {
  while (g.exp_head < g.cfg.n_explicit) {
    const Switch& h = g.cfg.explicit_sw[g.exp_head];
    if (h.task < 0) { g.exp_head++; continue; }  // initial pseudo entry, consumed by run()
    if (h.task != t->id) return -1;
    int c = cmp_pos(h.op, h.off, t->cur_op, off);
    if (c < 0) { g.exp_head++; continue; }  // a point we have passed (minimised away)
    if (c > 0) return -1;
    if (h.forced == 6 || h.forced == 7) return -1;  // taken by explicit_post(), after the event (lock held / yield hand-off)
    // recorded because the task BLOCKED in (or finished with) this event: the event has to take
    // effect first (a condition wait must release its mutex before the task is switched out);
    // pick_forced() consumes the entry when the task blocks again
    if (h.forced == 1 || h.forced == 2) return -1;
    g.exp_head++;
    if (h.to >= 0 && h.to < g.ntasks && h.to != t->id && g.tasks[h.to].state == T_RUN) return h.to;
    return -1;
  }
  return -1;
}

// choose who runs when the current task cannot continue
int pick_forced(Task* t) {
  for (int attempt = 0; attempt < 2; ++attempt) {
    int to = -1;
    if (g.fair) {
      to = next_rr(t->id);
    } else if (g.cfg.strategy == S_EXPLICIT) {
      uint64_t off = t->local_events - t->op_start;
      // consume entries of this task at or before this point; the last matching one decides
      while (g.exp_head < g.cfg.n_explicit) {
        const Switch& h = g.cfg.explicit_sw[g.exp_head];
        if (h.task < 0) { g.exp_head++; continue; }
        if (h.task != t->id) break;
        int c = cmp_pos(h.op, h.off, t->cur_op, off);
        if (c > 0) break;
        g.exp_head++;
        if (c == 0 && h.to >= 0 && h.to < g.ntasks && h.to != t->id && g.tasks[h.to].state == T_RUN) {
          to = h.to;
          break;
        }
      }
      if (to < 0 && g.exp_head < g.cfg.n_explicit) {
        int cand = g.cfg.explicit_sw[g.exp_head].task;
        if (cand >= 0 && cand < g.ntasks && cand != t->id && g.tasks[cand].state == T_RUN) to = cand;
      }
      if (to < 0) {
        for (int i = 0; i < g.ntasks; ++i)
          if (i != t->id && g.tasks[i].state == T_RUN) { to = i; break; }
      }
    } else if (g.cfg.strategy == S_PCT) {
      to = pct_best(t->id);
    } else if (g.cfg.strategy == S_SERIAL) {
      to = lowest_eligible(t->id);
    } else {
      to = random_eligible(t->id);
    }
    if (to >= 0) return to;
    if (!release_held()) break;
  }
  return -1;
}

void forced_switch(Task* t, int cause) {
  int to = pick_forced(t);
  if (to < 0) {
    bool all_done = true;
    for (int i = 0; i < g.ntasks; ++i)
      if (g.tasks[i].state != T_DONE) all_done = false;
    if (all_done) return;  // caller handles completion
    // every caller thread has finished and what is left are threads the code under test created and
    // left waiting (the workers of a pool): the run is complete, not deadlocked
    bool callers_done = true;
    int waiting = 0;
    for (int i = 0; i < g.ntasks; ++i) {
      if (g.tasks[i].state == T_DONE) continue;
      if (g.tasks[i].dynamic) waiting++;
      else callers_done = false;
    }
    if (callers_done) {
      g.res->daemon_threads = (uint64_t)waiting;
      g.active = 0;
      unpark(&g.ctl_wake);
      if (cause == 2) return;
      // stays parked like any switched-out task: the next run of this process may take it over
      park(&t->wake);
      g.res->cur_task = t->id;
      g.res->cur_op = t->cur_op;
      return;
    }
    g.res->deadlock = 1;
    end_run_abnormally();
  }
  if (cause == 2) {
    // finishing task: hand over and do not park
    uint64_t off = t->local_events - t->op_start;
    log_switch(t->id, t->cur_op, off, to, cause);
    g.cur = to;
    g.res->cur_task = to;
    g.res->cur_op = g.tasks[to].cur_op;
    unpark(&g.tasks[to].wake);
    return;
  }
  do_switch(t, to, cause);
}

inline bool is_sync_kind(int k) {
  return k == EV_ATOMIC || k == EV_GUARD || k == EV_MUTEX || k == EV_ALLOC || k == EV_ONCE || k == EV_CLOCK ||
         k == EV_OPB || k == EV_OPE || k == EV_START || k == EV_EXIT;
}

void draw_walk_skip() {
  double p = g.cfg.p;
  if (p <= 0) { g.walk_skip = ~0ull; return; }
  if (p >= 1) { g.walk_skip = 0; return; }
  double u = g.rng.uniform();
  if (u <= 0) u = 1e-300;
  // geometric: number of yield points to let pass before the next switch attempt
  double k = __builtin_floor(__builtin_log(u) / __builtin_log1p(-p));
  g.walk_skip = k > 1e18 ? ~0ull : (uint64_t)k;
}

// The one place where scheduling decisions are taken.  Called by the running task before the
// event it announces takes effect; returns when that task holds the baton.
void yield_point(Task* t, int kind, unsigned size, uint32_t pc) {
  Result& r = *g.res;
  t->last_pc = pc;
  uint64_t e = ++t->local_events;
  uint64_t off = e - t->op_start;
  ++g.step;
  r.events++;
  r.ev_by_kind[kind]++;
  r.task_events[t->id]++;

  if (g.cfg.max_events && g.step > g.cfg.max_events) {
    r.budget_exhausted = 1;
    end_run_abnormally();
  }
  if (!g.fair && g.cfg.fair_after && g.step > g.cfg.fair_after) {
    g.fair = 1;
    r.fair_mode_entered = 1;
    release_held();
  }

  int to = -1;
  int cause = 0;
  if (g.ntasks > 1) {
    if (g.fair) {
      if (++g.quantum >= 10000) {
        g.quantum = 0;
        to = next_rr(t->id);
        cause = 5;
      }
    } else {
      // --- faults attached to this point ---
      while (t->id < g.cfg.ntasks && t->fault_head < g.fault_cnt[t->id]) {  // faults are attached to caller threads
        Fault& f = g.cfg.faults[g.fault_idx[t->id][t->fault_head]];
        int c = cmp_pos(f.op, f.off, t->cur_op, off);
        if (c > 0) break;
        t->fault_head++;
        if (c < 0) continue;  // never reached exactly (operation shorter than expected)
        if (f.kind == F_PREEMPT) {
          int cand = random_eligible(t->id);
          if (cand >= 0) {
            f.fired = 1;
            r.fault_fired[F_PREEMPT]++;
            to = cand;
            cause = 3;
          }
        } else if (f.kind == F_CLOCK) {
          // no switch: every clock reading from here on is `arg` ns later (an expiry or time-out
          // inside the code under test elapses between two events)
          g.clock_offset += f.arg;
          f.fired = 1;
          r.fault_fired[F_CLOCK]++;
        } else if (f.kind == F_STALL) {
          int cand = g.cfg.strategy == S_PCT ? pct_best(t->id) : random_eligible(t->id);
          if (cand >= 0) {
            f.fired = 1;
            r.fault_fired[F_STALL]++;
            t->state = T_STALLED;
            t->stall_until_ops = g.ops_done + (f.arg ? f.arg : 1);
            to = cand;
            cause = 4;
          }
        }
      }
      if (to < 0) {
        switch (g.cfg.strategy) {
          case S_SERIAL: break;
          case S_LOCKSTEP:
            if ((kind == EV_OPB || kind == EV_START) && g.rng.uniform() < 0.5) to = random_eligible(t->id);
            break;
          case S_EXPLICIT: to = explicit_lookup(t, off); break;
          case S_OPGRAIN:
            if ((kind == EV_OPB || kind == EV_OPE) && g.rng.uniform() < g.cfg.p) to = random_eligible(t->id);
            break;
          case S_SYNC:
            if (is_sync_kind(kind) && g.rng.uniform() < g.cfg.p) to = random_eligible(t->id);
            break;
          case S_WALK:
            if (g.walk_skip == 0) {
              to = random_eligible(t->id);
              draw_walk_skip();
            } else if (g.walk_skip != ~0ull) {
              --g.walk_skip;
            }
            break;
          case S_PCT: {
            for (int i = 0; i < g.pct_nchange; ++i)
              if (g.pct_change[i] == g.step) t->prio = g.pct_low--;
            int best = pct_best(-1);
            if (best >= 0 && best != t->id && (t->state != T_RUN || g.tasks[best].prio > t->prio)) to = best;
            break;
          }
        }
      }
    }
  }
  if (to >= 0 && to != t->id) do_switch(t, to, cause);
  if (t->state == T_STALLED) t->state = T_RUN;  // resumed only after release

  r.log_hash = mix64(r.log_hash ^ ((uint64_t)(t->id + 1) << 56) ^ ((uint64_t)kind << 48) ^ ((uint64_t)size << 32) ^ pc);
  if (kind != EV_READ && kind != EV_WRITE) {
    r.conflict_sig = mix64(r.conflict_sig ^ ((uint64_t)(t->id + 1) << 56) ^ ((uint64_t)kind << 48) ^ pc);
  }
}

// lock-order search: right after a task has acquired a lock, let every other task run up to its
// own next acquisition; two tasks taking two locks in opposite orders then meet with certainty
// replay of a recorded hand-off that was taken AFTER the event at the same position took effect
// (cause 6: lock obtained; cause 7: sched_yield / sleep): same position as the event's yield point
void explicit_post(Task* t, int cause) {
  while (g.exp_head < g.cfg.n_explicit) {
    const Switch& h = g.cfg.explicit_sw[g.exp_head];
    if (h.task != t->id || h.forced != cause) return;
    int c = cmp_pos(h.op, h.off, t->cur_op, t->local_events - t->op_start);
    if (c > 0) return;
    g.exp_head++;
    if (c < 0) continue;
    if (h.to >= 0 && h.to < g.ntasks && h.to != t->id && g.tasks[h.to].state == T_RUN) do_switch(t, h.to, cause);
    return;
  }
}

void after_acquire(Task* t) {
  if (g.fair || g.ntasks < 2) return;
  if (g.cfg.strategy == S_EXPLICIT) {
    explicit_post(t, 6);
    return;
  }
  if (g.cfg.strategy != S_LOCKSTEP) return;
  int to = next_rr(t->id);
  if (to >= 0) do_switch(t, to, 6);
}

void block_on(Task* t, uintptr_t addr) {
  t->blocked_pc = t->last_pc;
  t->state = T_BLOCKED;
  t->blocked_on = addr;
  forced_switch(t, 1);
  // resumed: state was set to T_RUN by the waker
}

void wake_waiters(uintptr_t addr) {
  for (int i = 0; i < g.ntasks; ++i) {
    Task& w = g.tasks[i];
    if (w.state == T_BLOCKED && w.blocked_on == addr) {
      w.state = T_RUN;
      w.blocked_on = 0;
    }
  }
}

// ------------------------------------------------------------------------------------------
// sync objects and vector clocks
// ------------------------------------------------------------------------------------------

SyncObj* sync_lookup(uintptr_t addr, int kind, bool create) {
  size_t h = (size_t)(mix64(addr) & (kSyncSlots - 1));
  for (size_t i = 0; i < kSyncSlots; ++i) {
    SyncObj& s = g.sync[(h + i) & (kSyncSlots - 1)];
    if (s.addr == addr) return &s;
    if (s.addr == 0) {
      if (!create) return nullptr;
      s.addr = addr;
      s.kind = kind;
      s.owner = -1;
      s.state = G_UNINIT;
      s.recursion = 0;
      __real_memset(s.vc, 0, sizeof s.vc);
      return &s;
    }
  }
  die("sim: sync table full");
}

inline void vc_join(uint32_t* dst, const uint32_t* src) {
  const int n = g.ntasks > g.prev_ntasks ? g.ntasks : g.prev_ntasks;  // components beyond are zero
  for (int i = 0; i < n; ++i)
    if (src[i] > dst[i]) dst[i] = src[i];
}
inline void acquire(Task* t, SyncObj* s) { vc_join(t->vc, s->vc); }
inline void release_store(Task* t, SyncObj* s) {  // release: s.vc := t.vc
  __real_memcpy(s->vc, t->vc, sizeof s->vc);
  t->vc[t->id]++;
}
inline void release_join(Task* t, SyncObj* s) {  // release sequence / RMW: s.vc |= t.vc
  vc_join(s->vc, t->vc);
  t->vc[t->id]++;
}

// ------------------------------------------------------------------------------------------
// shadow memory and race detection
// ------------------------------------------------------------------------------------------

Cell* shadow_page(uintptr_t page, bool create) {
  if (g.last_page.page == page + 1) return g.last_page.cells;
  size_t h = (size_t)(mix64(page) & (kPageSlots - 1));
  for (size_t i = 0; i < kPageSlots; ++i) {
    PageEnt& e = g.pages[(h + i) & (kPageSlots - 1)];
    if (e.page == page + 1) {
      g.last_page = e;
      return e.cells;
    }
    if (e.page == 0) {
      if (!create) return nullptr;
      size_t bytes = kChunkWords * sizeof(Cell);
      if (g.cell_used + bytes > kCellArena) die("sim: shadow arena exhausted");
      e.page = page + 1;
      e.cells = (Cell*)(g.cell_arena + g.cell_used);
      g.cell_used += bytes;
      g.last_page = e;
      return e.cells;
    }
  }
  die("sim: shadow page table full");
}

int classify(uintptr_t a, int self, int* region_id, uint64_t* region_off) {
  *region_id = -1;
  *region_off = 0;
  for (size_t i = 0; i < g.nregions; ++i)
    if (a >= g.regions[i].lo && a < g.regions[i].hi) {
      *region_id = g.regions[i].id;
      *region_off = a - g.regions[i].lo;
      return 0;
    }
  if (a >= (uintptr_t)&__executable_start && a < (uintptr_t)&_end) return 1;
  for (int i = 0; i < g.ntasks; ++i)
    if (i != self && a - g.tasks[i].stack_lo < g.tasks[i].stack_sz) return 3;
  return 2;
}

void report_race(Task* t, uintptr_t addr, unsigned size, bool w, uint32_t pc, const Slot& s) {
  Result& r = *g.res;
  r.races_total++;
  bool pw = (s.flags & 2) != 0;
  for (size_t i = 0; i < r.n_races; ++i) {
    Race& q = r.races[i];
    if (q.pc_cur == pc && q.pc_prev == s.pc && q.w_cur == (int)w && q.w_prev == (int)pw) {
      q.count++;
      return;
    }
  }
  if (r.n_races >= kMaxRaces) return;
  Race& q = r.races[r.n_races++];
  q.addr = addr;
  q.size = size;
  q.task_cur = t->id;
  q.task_prev = s.task;
  q.w_cur = w;
  q.w_prev = pw;
  q.pc_cur = pc;
  q.pc_prev = s.pc;
  q.op_cur = t->cur_op;
  q.op_prev = s.op;
  q.count = 1;
  q.addr_class = classify(addr, t->id, &q.region_id, &q.region_off);
}

inline void check_word(Task* t, uintptr_t word, uint8_t mask, bool w, uint32_t pc, uintptr_t addr, unsigned size) {
  Cell* page = shadow_page(word >> 12, true);
  Cell& c = page[(word >> 3) & (kChunkWords - 1)];
  int same = -1, empty = -1, subsumed = -1;
  bool contended = false;
  for (int i = 0; i < kSlots; ++i) {
    Slot& s = c.s[i];
    if (!(s.flags & 1)) {
      if (empty < 0) empty = i;
      continue;
    }
    if (s.task == (uint8_t)t->id) {
      if ((s.mask & ~mask) == 0 && (w || !(s.flags & 2))) same = i;
      continue;
    }
    if ((s.mask & mask) == 0) continue;
    bool sw = (s.flags & 2) != 0;
    if (sw || w) contended = true;
    bool hb = t->vc[s.task] >= s.epoch;
    if (!sw && !w) {
      if (hb && subsumed < 0) subsumed = i;
      continue;
    }
    if (hb) {
      if ((w || !sw) && (s.mask & ~mask) == 0 && subsumed < 0) subsumed = i;
      continue;
    }
    report_race(t, addr, size, w, pc, s);
  }
  if (contended) {
    g.res->conflict_events++;
    g.res->conflict_sig = mix64(g.res->conflict_sig ^ ((uint64_t)(t->id + 1) << 56) ^ ((uint64_t)w << 48) ^ pc);
  }
  int k = same >= 0 ? same : empty >= 0 ? empty : subsumed >= 0 ? subsumed : (int)(g.step % kSlots);
  Slot& d = c.s[k];
  d.epoch = t->vc[t->id];
  d.pc = pc;
  d.task = (uint8_t)t->id;
  d.mask = mask;
  d.flags = (uint8_t)(1 | (w ? 2 : 0));
  d.op = t->cur_op;
}

void check_range(Task* t, uintptr_t a, size_t size, bool w, uint32_t pc) {
  uintptr_t end = a + size;
  uintptr_t word = a & ~(uintptr_t)7;
  for (; word < end; word += 8) {
    uintptr_t lo = a > word ? a : word;
    uintptr_t hi = end < word + 8 ? end : word + 8;
    uint8_t mask = (uint8_t)(((1u << (hi - lo)) - 1u) << (lo - word));
    check_word(t, word, mask, w, pc, a, (unsigned)size);
  }
}

void shadow_clear(uintptr_t a, size_t size) {
  if (!size) return;
  uintptr_t end = a + size;
  uintptr_t word = a & ~(uintptr_t)7;
  while (word < end) {
    uintptr_t page = word >> 12;
    uintptr_t page_end = (page + 1) << 12;
    uintptr_t stop = end < page_end ? end : page_end;
    Cell* cells = shadow_page(page, false);
    if (cells) {
      size_t i0 = (word >> 3) & (kChunkWords - 1);
      size_t n = (stop - word + 7) >> 3;
      __real_memset(&cells[i0], 0, n * sizeof(Cell));
    }
    word = stop;
  }
}

inline void ws_note(uintptr_t a, size_t size, uint32_t pc) {
  ws.total++;
  if (a + size <= ws.lo || a >= ws.hi) return;
  if (ws.n >= kWsCap) { ws.overflow = 1; return; }
  ws.recs[ws.n].addr = a;
  ws.recs[ws.n].size = (uint32_t)size;
  ws.recs[ws.n].pc = pc;
  ws.n++;
}

inline void on_access(uintptr_t a, size_t size, bool w, uint32_t pc) {
  if (w && ws.active) ws_note(a, size, pc);
  Task* t = tl_task;
  if (!t || !g.active || t->in_rt) return;
  if (a - t->stack_lo < t->stack_sz) return;  // the running task's own stack (and its static TLS)
  if (!g.cfg.track_memory) return;
  t->in_rt = 1;
  yield_point(t, w ? EV_WRITE : EV_READ, (unsigned)size, pc);
  if (a >= (uintptr_t)&__executable_start && a < (uintptr_t)&_end) g.res->events_by_class[1]++;
  else g.res->events_by_class[2]++;
  check_range(t, a, size, w, pc);
  t->in_rt = 0;
}

#define PC() ((uint32_t)(uintptr_t)__builtin_return_address(0))

// ------------------------------------------------------------------------------------------
// task threads
// ------------------------------------------------------------------------------------------

void* task_main(void* arg) {
  Task* t = (Task*)arg;
  tl_task = t;
  t->in_rt = 1;
  // report parked
  __atomic_add_fetch(&g.ready, 1, __ATOMIC_RELEASE);
  futex(&g.ready, FUTEX_WAKE_PRIVATE, 1);
  park(&t->wake);
  // scheduled for the first time
  yield_point(t, EV_START, 0, 0);
  t->in_rt = 0;
  g.body(t->id, g.body_arg);
  t->in_rt = 1;
  yield_point(t, EV_EXIT, 0, 0);
  t->state = T_DONE;
  t->vc[t->id]++;
  bool all_done = true;
  for (int i = 0; i < g.ntasks; ++i)
    if (g.tasks[i].state != T_DONE) all_done = false;
  if (all_done) {
    g.active = 0;
    unpark(&g.ctl_wake);
  } else {
    forced_switch(t, 2);
  }
  // wait at the exit gate: thread teardown happens outside the simulated interval
  for (;;) {
    if (__atomic_load_n(&g.release_gate, __ATOMIC_ACQUIRE)) break;
    futex(&g.release_gate, FUTEX_WAIT_PRIVATE, 0);
  }
  return nullptr;
}

void unsupported(Task* t, const char* what);

// a thread the code under test created: it becomes one more task under the same scheduler
void* dyn_task_main(void* arg) {
  Task* t = (Task*)arg;
  tl_task = t;
  t->in_rt = 1;
  __atomic_add_fetch(&g.ready, 1, __ATOMIC_RELEASE);
  futex(&g.ready, FUTEX_WAKE_PRIVATE, 1 << 30);
  park(&t->wake);
  yield_point(t, EV_START, 0, 0);
  t->in_rt = 0;
  void* ret = t->ufn(t->uarg);
  t->in_rt = 1;
  t->uret = ret;
  yield_point(t, EV_EXIT, 0, 0);
  t->state = T_DONE;
  t->vc[t->id]++;
  wake_waiters((uintptr_t)t | 2);
  bool all_done = true;
  for (int i = 0; i < g.ntasks; ++i)
    if (g.tasks[i].state != T_DONE) all_done = false;
  if (all_done) {
    g.active = 0;
    unpark(&g.ctl_wake);
  } else {
    forced_switch(t, 2);
  }
  // What a real thread does on its way out (thread-local destructors, the allocator giving back its
  // per-thread structures) must not overlap other tasks, or the state of the heap would depend on
  // real timing: it happens while the joiner holds the baton and waits in the real pthread_join.
  // A thread nobody joins stays parked until the process ends.
  for (;;) {
    if (__atomic_load_n(&t->exit_gate, __ATOMIC_ACQUIRE)) break;
    futex(&t->exit_gate, FUTEX_WAIT_PRIVATE, 0);
  }
  return ret;
}

void make_absent(int i) {
  Task& t = g.tasks[i];
  __real_memset(&t, 0, sizeof t);
  t.id = i;
  t.state = T_DONE;
  t.cur_op = -1;
}

int create_dynamic_task(Task* creator, pthread_t* th, void* (*fn)(void*), void* arg, uint32_t pc) {
  creator->in_rt = 1;
  yield_point(creator, EV_MUTEX, 11, pc);
  // a slot whose thread has finished and been joined (or detached) serves the next thread; its
  // clock component continues, i.e. the new thread counts as a continuation of the old one
  int id = -1;
  uint32_t epoch0 = 0;
  for (int i = kMaxCallerTasks; i < g.ntasks && g.ntasks >= kMaxTasks; ++i) {  // only once all slots have been used
    Task& o = g.tasks[i];
    if (o.dynamic && o.state == T_DONE && (o.reaped || o.detached)) {
      id = i;
      epoch0 = o.vc[i];
      break;
    }
  }
  bool fresh = id < 0;
  if (fresh) {
    if (g.ntasks >= kMaxTasks) unsupported(creator, "thread limit: more than 250 live threads in one run");
    // created threads are numbered from kMaxCallerTasks in every run, whatever the number of callers
    // (so that a thread keeps its number from the preparation run into the simulated interval);
    // the slots in between stay absent
    for (; g.ntasks < kMaxCallerTasks; ++g.ntasks) make_absent(g.ntasks);
    id = g.ntasks;
  }
  Task& t = g.tasks[id];
  __real_memset(&t, 0, sizeof t);
  t.id = id;
  t.state = T_RUN;
  t.dynamic = 1;
  t.parent = creator->id;
  t.ufn = fn;
  t.uarg = arg;
  t.cur_op = creator->cur_op;  // its events are attributed to the operation that spawned it
  __real_memcpy(t.vc, creator->vc, sizeof t.vc);  // spawn edge
  if (t.vc[id] < epoch0) t.vc[id] = epoch0;
  t.vc[id]++;
  creator->vc[creator->id]++;
  t.prio = g.pct_low--;
  size_t sz = g.cfg.stack_bytes;
  char* mem = (char*)mmap(nullptr, sz + 8192, PROT_NONE, MAP_PRIVATE | MAP_ANONYMOUS | MAP_NORESERVE, -1, 0);
  if (mem == MAP_FAILED || mprotect(mem + 4096, sz, PROT_READ | PROT_WRITE)) die("sim: stack for dynamic thread");
  t.stack_lo = (uintptr_t)mem + 4096;
  t.stack_sz = sz;
  pthread_attr_t at;
  pthread_attr_init(&at);
  pthread_attr_setstack(&at, (void*)t.stack_lo, t.stack_sz);
  int before = __atomic_load_n(&g.ready, __ATOMIC_ACQUIRE);
  if (fresh) g.ntasks = id + 1;
  int rc = real_pthread_create(&t.th, &at, dyn_task_main, &t);
  pthread_attr_destroy(&at);
  if (rc) {
    if (fresh) g.ntasks = id;
    else { t.state = T_DONE; t.reaped = 1; }
    munmap((void*)(t.stack_lo - 4096), t.stack_sz + 8192);
    creator->in_rt = 0;
    return rc;
  }
  for (;;) {  // wait (for real, briefly) until the new thread is parked
    int r = __atomic_load_n(&g.ready, __ATOMIC_ACQUIRE);
    if (r > before) break;
    futex(&g.ready, FUTEX_WAIT_PRIVATE, r);
  }
  *th = t.th;
  g.res->dynamic_threads++;
  creator->in_rt = 0;
  return 0;
}

Task* task_of_thread(pthread_t th) {
  for (int i = 0; i < g.ntasks; ++i)
    if (g.tasks[i].dynamic && !g.tasks[i].reaped && pthread_equal(g.tasks[i].th, th)) return &g.tasks[i];
  return nullptr;
}

void resolve_real() {
  if (g_inited) return;
  g_inited = 1;
  real_pthread_create = (pthread_create_t)dlsym(RTLD_NEXT, "pthread_create");
  real_pthread_join = (pthread_join_t)dlsym(RTLD_NEXT, "pthread_join");
  real_pthread_detach = (pthread_detach_t)dlsym(RTLD_NEXT, "pthread_detach");
  real_mutex_lock = (mutex_fn_t)dlsym(RTLD_NEXT, "pthread_mutex_lock");
  real_mutex_unlock = (mutex_fn_t)dlsym(RTLD_NEXT, "pthread_mutex_unlock");
  real_mutex_trylock = (mutex_fn_t)dlsym(RTLD_NEXT, "pthread_mutex_trylock");
  real_once = (once_t)dlsym(RTLD_NEXT, "pthread_once");
  real_cond_wait = (cond_wait_t)dlsym(RTLD_NEXT, "pthread_cond_wait");
  real_cond_timedwait = (cond_timedwait_t)dlsym(RTLD_NEXT, "pthread_cond_timedwait");
  real_rdlock = (rwlock_fn_t)dlsym(RTLD_NEXT, "pthread_rwlock_rdlock");
  real_wrlock = (rwlock_fn_t)dlsym(RTLD_NEXT, "pthread_rwlock_wrlock");
  real_rwunlock = (rwlock_fn_t)dlsym(RTLD_NEXT, "pthread_rwlock_unlock");
  real_tryrdlock = (rwlock_fn_t)dlsym(RTLD_NEXT, "pthread_rwlock_tryrdlock");
  real_trywrlock = (rwlock_fn_t)dlsym(RTLD_NEXT, "pthread_rwlock_trywrlock");
  real_cond_signal = (cond_fn_t)dlsym(RTLD_NEXT, "pthread_cond_signal");
  real_cond_broadcast = (cond_fn_t)dlsym(RTLD_NEXT, "pthread_cond_broadcast");
  real_sem_wait = (sem_fn_t)dlsym(RTLD_NEXT, "sem_wait");
  real_sem_trywait = (sem_fn_t)dlsym(RTLD_NEXT, "sem_trywait");
  real_sem_post = (sem_fn_t)dlsym(RTLD_NEXT, "sem_post");
  real_spin_lock = (spin_fn_t)dlsym(RTLD_NEXT, "pthread_spin_lock");
  real_spin_trylock = (spin_fn_t)dlsym(RTLD_NEXT, "pthread_spin_trylock");
  real_spin_unlock = (spin_fn_t)dlsym(RTLD_NEXT, "pthread_spin_unlock");
  real_nanosleep = (nanosleep_t)dlsym(RTLD_NEXT, "nanosleep");
  real_usleep = (usleep_t)dlsym(RTLD_NEXT, "usleep");
  real_sched_yield = (sched_yield_t)dlsym(RTLD_NEXT, "sched_yield");
  if (!real_pthread_create || !real_mutex_lock || !real_mutex_unlock) die("sim: dlsym(RTLD_NEXT) failed");
}

void unsupported(Task* t, const char* what) {
  t->in_rt = 1;
  g.res->unsupported = 1;
  strncpy(g.res->unsupported_what, what, sizeof g.res->unsupported_what - 1);
  end_run_abnormally();
}

}  // namespace

// ------------------------------------------------------------------------------------------
// public API
// ------------------------------------------------------------------------------------------

void init() {
  resolve_real();
  if (!ws.recs) ws.recs = (WsRec*)xmmap(kWsCap * sizeof(WsRec));
}

bool in_task() { return tl_task && g.active; }
uint64_t now() { return g.step; }
uint64_t ops_done() { return g.ops_done; }

void register_region(const void* p, size_t n, int id) {
  if (g.nregions >= kMaxRegions) return;
  g.regions[g.nregions].lo = (uintptr_t)p;
  g.regions[g.nregions].hi = (uintptr_t)p + n;
  g.regions[g.nregions].id = id;
  g.nregions++;
}
void clear_regions() { g.nregions = 0; }

void op_begin(int idx) {
  Task* t = tl_task;
  if (!t || !g.active) return;
  t->in_rt = 1;
  t->cur_op = idx;
  g.res->cur_task = t->id;
  g.res->cur_op = idx;
  t->op_start = t->local_events + 1;
  yield_point(t, EV_OPB, 0, (uint32_t)idx);
  t->in_rt = 0;
}

void op_end() {
  Task* t = tl_task;
  if (!t || !g.active) return;
  t->in_rt = 1;
  yield_point(t, EV_OPE, 0, (uint32_t)t->cur_op);
  g.ops_done++;
  check_stalled();
  t->in_rt = 0;
}

void run(const Config& cfg, TaskBody body, void* arg, Result& res) {
  resolve_real();
  if (cfg.ntasks < 1 || cfg.ntasks > kMaxCallerTasks) die("sim: bad ntasks %d", cfg.ntasks);
  // fresh tables for every run
  int carried_hi = 0;
  if (!g.sync) {
    g.sync = (SyncObj*)xmmap(kSyncSlots * sizeof(SyncObj));
    g.pages = (PageEnt*)xmmap(kPageSlots * sizeof(PageEnt));
    g.cell_arena = (char*)xmmap(kCellArena);
    g.swlog = (Switch*)xmmap(kMaxSwitches * sizeof(Switch));
  } else {
    // re-running reuses cleared tables; when threads are taken over from the previous run the
    // synchronisation objects they are waiting on (and hold pointers to) are kept
    for (int i = kMaxCallerTasks; i < g.prev_ntasks && cfg.adopt_threads; ++i)
      if (g.tasks[i].dynamic && g.tasks[i].state == T_BLOCKED) carried_hi = i + 1;
    if (!carried_hi) madvise(g.sync, kSyncSlots * sizeof(SyncObj), MADV_DONTNEED);  // reads as zero again
    __real_memset(g.pages, 0, kPageSlots * sizeof(PageEnt));
    madvise(g.cell_arena, g.cell_used, MADV_DONTNEED);
  }
  g.cell_used = 0;
  g.last_page.page = 0;
  g.last_page.cells = nullptr;
  g.cfg = cfg;
  g.res = &res;
  res.switch_log = cfg.sw_buf ? cfg.sw_buf : g.swlog;
  res.n_switches = 0;
  if (cfg.sw_count) *cfg.sw_count = 0;
  g.ntasks = cfg.ntasks;
  if (carried_hi) {
    for (int i = cfg.ntasks; i < kMaxCallerTasks; ++i) make_absent(i);
    for (int i = kMaxCallerTasks; i < carried_hi; ++i) {
      Task& t = g.tasks[i];
      if (t.dynamic && t.state == T_BLOCKED) {
        res.adopted_threads++;
        t.cur_op = -1;
        t.local_events = 0;
        t.op_start = 0;
        continue;
      }
      make_absent(i);
      t.dynamic = 1;  // a free slot for the next created thread
      t.reaped = 1;
      t.vc[i] = g.carry_vc[i];
    }
    g.ntasks = carried_hi;
  }
  g.step = 0;
  g.clock_offset = 0;
  g.ops_done = 0;
  g.rng.s = mix64(cfg.seed ^ 0x5eed5eed5eedull);
  g.exp_head = 0;
  g.fair = 0;
  g.quantum = 0;
  g.ready = 0;
  g.release_gate = 0;
  g.run_over = 0;
  g.ctl_wake = 0;
  g.body = body;
  g.body_arg = arg;

  for (int i = 0; i < cfg.ntasks; ++i) g.fault_cnt[i] = 0;
  for (size_t i = 0; i < cfg.n_faults; ++i) {
    Fault& f = cfg.faults[i];
    f.fired = 0;
    if (f.task < 0 || f.task >= cfg.ntasks) continue;
    if (f.kind == F_LATE) continue;
    if (g.fault_cnt[f.task] >= 64) continue;
    // insertion sort by (op, off)
    size_t n = g.fault_cnt[f.task]++;
    size_t* idx = g.fault_idx[f.task];
    size_t j = n;
    while (j > 0 && cmp_pos(cfg.faults[idx[j - 1]].op, cfg.faults[idx[j - 1]].off, f.op, f.off) > 0) {
      idx[j] = idx[j - 1];
      --j;
    }
    idx[j] = i;
  }

  for (int i = 0; i < cfg.ntasks; ++i) {
    Task& t = g.tasks[i];
    __real_memset(&t, 0, sizeof t);
    t.id = i;
    t.state = T_RUN;
    t.cur_op = -1;
    if (carried_hi) __real_memcpy(t.vc, g.carry_vc, sizeof t.vc);  // everything the previous run did happened before
    t.vc[i]++;
    size_t sz = cfg.stack_bytes;
    char* mem = (char*)mmap(nullptr, sz + 8192, PROT_NONE, MAP_PRIVATE | MAP_ANONYMOUS | MAP_NORESERVE, -1, 0);
    if (mem == MAP_FAILED) die("sim: stack mmap failed");
    if (mprotect(mem + 4096, sz, PROT_READ | PROT_WRITE)) die("sim: stack mprotect failed");
    t.stack_lo = (uintptr_t)mem + 4096;
    t.stack_sz = sz;
  }
  for (size_t i = 0; i < cfg.n_faults; ++i) {
    Fault& f = cfg.faults[i];
    if (f.kind == F_LATE && f.task >= 0 && f.task < cfg.ntasks) g.tasks[f.task].late_until = f.arg;
  }

  // PCT priorities and change points
  if (cfg.strategy == S_PCT) {
    int n = cfg.ntasks;
    int perm[kMaxTasks];
    for (int i = 0; i < n; ++i) perm[i] = i;
    for (int i = n - 1; i > 0; --i) {
      int j = (int)g.rng.below((uint64_t)i + 1);
      int tmp = perm[i];
      perm[i] = perm[j];
      perm[j] = tmp;
    }
    for (int i = 0; i < n; ++i) g.tasks[perm[i]].prio = 100 + i;
    g.pct_low = 99;
    g.pct_nchange = cfg.pct_depth > 1 ? (cfg.pct_depth - 1 > 8 ? 8 : cfg.pct_depth - 1) : 0;
    uint64_t k = cfg.pct_k ? cfg.pct_k : 1000;
    for (int i = 0; i < g.pct_nchange; ++i) g.pct_change[i] = 1 + g.rng.below(k);
  }
  if (cfg.strategy == S_WALK) draw_walk_skip();

  // create task threads one by one; each parks before the next is created
  for (int i = 0; i < cfg.ntasks; ++i) {
    Task& t = g.tasks[i];
    pthread_attr_t at;
    pthread_attr_init(&at);
    pthread_attr_setstack(&at, (void*)t.stack_lo, t.stack_sz);
    int rc = real_pthread_create(&t.th, &at, task_main, &t);
    if (rc) die("sim: pthread_create failed: %d", rc);
    pthread_attr_destroy(&at);
    for (;;) {
      int r = __atomic_load_n(&g.ready, __ATOMIC_ACQUIRE);
      if (r >= i + 1) break;
      futex(&g.ready, FUTEX_WAIT_PRIVATE, r);
    }
  }

  // choose the first task
  int first = 0;
  if (cfg.strategy == S_EXPLICIT) {
    if (cfg.n_explicit && cfg.explicit_sw[0].task < 0 && cfg.explicit_sw[0].to >= 0 &&
        cfg.explicit_sw[0].to < cfg.ntasks) {
      first = cfg.explicit_sw[0].to;
      g.exp_head = 1;
    }
  } else if (cfg.strategy == S_PCT) {
    first = pct_best(-1);
    if (first < 0) { release_held(); first = pct_best(-1); }
  } else if (cfg.strategy == S_SERIAL) {
    first = lowest_eligible(-1);
    if (first < 0) { release_held(); first = lowest_eligible(-1); }
  } else {
    first = random_eligible(-1);
    if (first < 0) { release_held(); first = random_eligible(-1); }
  }
  for (int i = 0; i < cfg.ntasks; ++i)
    if (g.tasks[i].late_until > 0) res.fault_fired[F_LATE]++;
  for (size_t i = 0; i < cfg.n_faults; ++i)
    if (cfg.faults[i].kind == F_LATE) cfg.faults[i].fired = 1;
  log_switch(-1, -1, 0, first, 0);
  res.switches = 0;
  g.cur = first;
  res.cur_task = first;
  res.cur_op = -1;
  g.active = 1;
  unpark(&g.tasks[first].wake);
  park(&g.ctl_wake);
  g.active = 0;

  if (g.run_over) return;  // abnormal end: task threads stay parked, caller must _exit
  g.prev_ntasks = g.ntasks;
  for (int i = 0; i < g.ntasks; ++i) vc_join(g.carry_vc, g.tasks[i].vc);
  __atomic_store_n(&g.release_gate, 1, __ATOMIC_RELEASE);
  futex(&g.release_gate, FUTEX_WAKE_PRIVATE, 1 << 30);
  for (int i = 0; i < cfg.ntasks; ++i) real_pthread_join(g.tasks[i].th, nullptr);
  for (int i = 0; i < cfg.ntasks; ++i) munmap((void*)(g.tasks[i].stack_lo - 4096), g.tasks[i].stack_sz + 8192);
}

void ws_begin(const void* alo, const void* ahi) {
  if (!ws.recs) ws.recs = (WsRec*)xmmap(kWsCap * sizeof(WsRec));
  ws.lo = (uintptr_t)alo;
  ws.hi = (uintptr_t)ahi;
  ws.n = 0;
  ws.overflow = 0;
  ws.total = 0;
  ws.active = 1;
}
void ws_end() { ws.active = 0; }
size_t ws_count() { return ws.n; }
const WsRec* ws_recs() { return ws.recs; }
bool ws_overflow() { return ws.overflow != 0; }
uint64_t ws_total_writes() { return ws.total; }

}  // namespace sim

// ============================================================================================
// ThreadSanitizer ABI
// ============================================================================================

using namespace sim;

extern "C" {

void __tsan_init() {}
void __tsan_func_entry(void*) {}
void __tsan_func_exit() {}

#define RW(N)                                                                                      \
  void __tsan_read##N(void* a) { on_access((uintptr_t)a, N, false, PC()); }                        \
  void __tsan_write##N(void* a) { on_access((uintptr_t)a, N, true, PC()); }                        \
  void __tsan_unaligned_read##N(void* a) { on_access((uintptr_t)a, N, false, PC()); }              \
  void __tsan_unaligned_write##N(void* a) { on_access((uintptr_t)a, N, true, PC()); }              \
  void __tsan_read##N##_pc(void* a, void* pc) { on_access((uintptr_t)a, N, false, (uint32_t)(uintptr_t)pc); } \
  void __tsan_write##N##_pc(void* a, void* pc) { on_access((uintptr_t)a, N, true, (uint32_t)(uintptr_t)pc); }
RW(1)
RW(2)
RW(4)
RW(8)
RW(16)
#undef RW

void __tsan_read_range(void* a, unsigned long n) {
  if (n) on_access((uintptr_t)a, n, false, PC());
}
void __tsan_write_range(void* a, unsigned long n) {
  if (n) on_access((uintptr_t)a, n, true, PC());
}
void __tsan_read_range_pc(void* a, unsigned long n, void* pc) {
  if (n) on_access((uintptr_t)a, n, false, (uint32_t)(uintptr_t)pc);
}
void __tsan_write_range_pc(void* a, unsigned long n, void* pc) {
  if (n) on_access((uintptr_t)a, n, true, (uint32_t)(uintptr_t)pc);
}
void __tsan_vptr_update(void** vptr_p, void* new_val) {
  if (*vptr_p != new_val) on_access((uintptr_t)vptr_p, 8, true, PC());
}
void __tsan_vptr_read(void** vptr_p) { on_access((uintptr_t)vptr_p, 8, false, PC()); }

// ---- atomics ----
typedef enum { mo_relaxed, mo_consume, mo_acquire, mo_release, mo_acq_rel, mo_seq_cst } morder;

static inline bool is_acq(int mo) { return mo == mo_consume || mo == mo_acquire || mo == mo_acq_rel || mo == mo_seq_cst; }
static inline bool is_rel(int mo) { return mo == mo_release || mo == mo_acq_rel || mo == mo_seq_cst; }

// announce an atomic operation; returns the task if the simulation is live
static inline Task* atomic_pre(const volatile void* a, unsigned size, uint32_t pc) {
  Task* t = live_task();
  if (!t) return nullptr;
  t->in_rt = 1;
  yield_point(t, EV_ATOMIC, size, pc);
  (void)a;
  return t;
}
static inline void atomic_post(Task* t, const volatile void* a, int mo, bool is_load, bool is_store) {
  if (!t) return;
  SyncObj* s = sync_lookup((uintptr_t)a, SK_ATOMIC, true);
  if (is_load) {
    if (is_acq(mo)) acquire(t, s);
    else vc_join(t->acq_pending_vc, s->vc);  // becomes an acquire at the next acquire fence
  }
  if (is_store) {
    if (is_rel(mo)) {
      if (is_load) release_join(t, s);
      else release_store(t, s);
    } else if (t->has_rel_fence) {
      vc_join(s->vc, t->rel_fence_vc);  // relaxed store after a release fence
    }
  }
  t->in_rt = 0;
}

#define ATOMIC(N, T)                                                                               \
  T __tsan_atomic##N##_load(const volatile T* a, int mo) {                                         \
    Task* t = atomic_pre(a, sizeof(T), PC());                                                      \
    T v = __atomic_load_n(a, __ATOMIC_SEQ_CST);                                                    \
    atomic_post(t, a, mo, true, false);                                                            \
    return v;                                                                                      \
  }                                                                                                \
  void __tsan_atomic##N##_store(volatile T* a, T v, int mo) {                                      \
    Task* t = atomic_pre(a, sizeof(T), PC());                                                      \
    if (ws.active) ws_note((uintptr_t)a, sizeof(T), PC());                                         \
    __atomic_store_n(a, v, __ATOMIC_SEQ_CST);                                                      \
    atomic_post(t, a, mo, false, true);                                                            \
  }                                                                                                \
  T __tsan_atomic##N##_exchange(volatile T* a, T v, int mo) {                                      \
    Task* t = atomic_pre(a, sizeof(T), PC());                                                      \
    T r = __atomic_exchange_n(a, v, __ATOMIC_SEQ_CST);                                             \
    atomic_post(t, a, mo, true, true);                                                             \
    return r;                                                                                      \
  }                                                                                                \
  int __tsan_atomic##N##_compare_exchange_strong(volatile T* a, T* c, T v, int mo, int fmo) {      \
    Task* t = atomic_pre(a, sizeof(T), PC());                                                      \
    int ok = __atomic_compare_exchange_n(a, c, v, 0, __ATOMIC_SEQ_CST, __ATOMIC_SEQ_CST);          \
    atomic_post(t, a, ok ? mo : fmo, true, ok != 0);                                               \
    return ok;                                                                                     \
  }                                                                                                \
  int __tsan_atomic##N##_compare_exchange_weak(volatile T* a, T* c, T v, int mo, int fmo) {        \
    Task* t = atomic_pre(a, sizeof(T), PC());                                                      \
    int ok = __atomic_compare_exchange_n(a, c, v, 0, __ATOMIC_SEQ_CST, __ATOMIC_SEQ_CST);          \
    atomic_post(t, a, ok ? mo : fmo, true, ok != 0);                                               \
    return ok;                                                                                     \
  }                                                                                                \
  T __tsan_atomic##N##_compare_exchange_val(volatile T* a, T c, T v, int mo, int fmo) {            \
    Task* t = atomic_pre(a, sizeof(T), PC());                                                      \
    T expected = c;                                                                                \
    int ok = __atomic_compare_exchange_n(a, &expected, v, 0, __ATOMIC_SEQ_CST, __ATOMIC_SEQ_CST);  \
    atomic_post(t, a, ok ? mo : fmo, true, ok != 0);                                               \
    return expected;                                                                               \
  }

#define ATOMIC_RMW(N, T, NAME, BUILTIN)                                                            \
  T __tsan_atomic##N##_##NAME(volatile T* a, T v, int mo) {                                        \
    Task* t = atomic_pre(a, sizeof(T), PC());                                                      \
    T r = BUILTIN(a, v, __ATOMIC_SEQ_CST);                                                         \
    atomic_post(t, a, mo, true, true);                                                             \
    return r;                                                                                      \
  }

#define ATOMIC_ALL(N, T)                                                                           \
  ATOMIC(N, T)                                                                                     \
  ATOMIC_RMW(N, T, fetch_add, __atomic_fetch_add)                                                  \
  ATOMIC_RMW(N, T, fetch_sub, __atomic_fetch_sub)                                                  \
  ATOMIC_RMW(N, T, fetch_and, __atomic_fetch_and)                                                  \
  ATOMIC_RMW(N, T, fetch_or, __atomic_fetch_or)                                                    \
  ATOMIC_RMW(N, T, fetch_xor, __atomic_fetch_xor)                                                  \
  ATOMIC_RMW(N, T, fetch_nand, __atomic_fetch_nand)

ATOMIC_ALL(8, char)
ATOMIC_ALL(16, short)
ATOMIC_ALL(32, int)
ATOMIC_ALL(64, long)

// 128-bit atomics (std::atomic<struct of two words>, tagged pointers).  Exactly one thread runs at
// any instant, so the operation itself can be performed with plain accesses; the bookkeeping is the
// same as for the narrower ones.
typedef __int128 a128;
a128 __tsan_atomic128_load(const volatile a128* a, int mo) {
  Task* t = atomic_pre(a, 16, PC());
  a128 v;
  __real_memcpy(&v, (const void*)a, 16);
  atomic_post(t, a, mo, true, false);
  return v;
}
void __tsan_atomic128_store(volatile a128* a, a128 v, int mo) {
  Task* t = atomic_pre(a, 16, PC());
  if (ws.active) ws_note((uintptr_t)a, 16, PC());
  __real_memcpy((void*)a, &v, 16);
  atomic_post(t, a, mo, false, true);
}
a128 __tsan_atomic128_exchange(volatile a128* a, a128 v, int mo) {
  Task* t = atomic_pre(a, 16, PC());
  a128 r;
  __real_memcpy(&r, (const void*)a, 16);
  __real_memcpy((void*)a, &v, 16);
  atomic_post(t, a, mo, true, true);
  return r;
}
int __tsan_atomic128_compare_exchange_strong(volatile a128* a, a128* c, a128 v, int mo, int fmo) {
  Task* t = atomic_pre(a, 16, PC());
  a128 cur;
  __real_memcpy(&cur, (const void*)a, 16);
  int ok = cur == *c;
  if (ok) __real_memcpy((void*)a, &v, 16);
  else *c = cur;
  atomic_post(t, a, ok ? mo : fmo, true, ok != 0);
  return ok;
}
int __tsan_atomic128_compare_exchange_weak(volatile a128* a, a128* c, a128 v, int mo, int fmo) {
  return __tsan_atomic128_compare_exchange_strong(a, c, v, mo, fmo);
}
a128 __tsan_atomic128_compare_exchange_val(volatile a128* a, a128 c, a128 v, int mo, int fmo) {
  a128 expected = c;
  __tsan_atomic128_compare_exchange_strong(a, &expected, v, mo, fmo);
  return expected;
}
#define ATOMIC128_RMW(NAME, EXPR)                                  \
  a128 __tsan_atomic128_##NAME(volatile a128* a, a128 v, int mo) { \
    Task* t = atomic_pre(a, 16, PC());                             \
    a128 r;                                                        \
    __real_memcpy(&r, (const void*)a, 16);                         \
    a128 n = EXPR;                                                 \
    __real_memcpy((void*)a, &n, 16);                               \
    atomic_post(t, a, mo, true, true);                             \
    return r;                                                      \
  }
ATOMIC128_RMW(fetch_add, r + v)
ATOMIC128_RMW(fetch_sub, r - v)
ATOMIC128_RMW(fetch_and, r & v)
ATOMIC128_RMW(fetch_or, r | v)
ATOMIC128_RMW(fetch_xor, r ^ v)
ATOMIC128_RMW(fetch_nand, ~(r & v))

void __tsan_atomic_thread_fence(int mo) {
  // Fence-based publication (C++ [atomics.fences]): a release fence followed by a relaxed store
  // synchronises with a relaxed load followed by an acquire fence.
  Task* t = atomic_pre(nullptr, 0, PC());
  __atomic_thread_fence(__ATOMIC_SEQ_CST);
  if (t) {
    if (is_acq(mo)) vc_join(t->vc, t->acq_pending_vc);
    if (is_rel(mo)) {
      __real_memcpy(t->rel_fence_vc, t->vc, sizeof t->rel_fence_vc);
      t->has_rel_fence = 1;
      t->vc[t->id]++;
    }
    t->in_rt = 0;
  }
}
void __tsan_atomic_signal_fence(int) {}

// ============================================================================================
// static-initialisation guards (Itanium C++ ABI)
// ============================================================================================

int __cxa_guard_acquire(long* gv) {
  char* gb = (char*)gv;
  Task* t = live_task();
  if (!t) {
    // outside the simulated interval there is exactly one running thread
    if (__atomic_load_n(gb, __ATOMIC_ACQUIRE)) return 0;
    if (gb[1]) {
      // recursive initialisation
      static const char msg[] = "sim: recursive static initialisation outside simulation\n";
      (void)!write(2, msg, sizeof msg - 1);
      abort();
    }
    gb[1] = 1;
    return 1;
  }
  t->in_rt = 1;
  uint32_t pc = PC();
  yield_point(t, EV_GUARD, 0, pc);
  SyncObj* s = sync_lookup((uintptr_t)gv, SK_GUARD, true);
  for (;;) {
    if (__atomic_load_n(gb, __ATOMIC_ACQUIRE)) {
      acquire(t, s);
      t->in_rt = 0;
      return 0;
    }
    if (s->state == G_INPROGRESS) {
      if (s->owner == t->id) unsupported(t, "recursive static initialisation");
      g.res->guard_block++;
      block_on(t, (uintptr_t)gv);
      continue;
    }
    s->state = G_INPROGRESS;
    s->owner = t->id;
    g.res->guard_init_in_sim++;
    t->in_init++;
    t->in_rt = 0;
    return 1;
  }
}

void __cxa_guard_release(long* gv) {
  char* gb = (char*)gv;
  Task* t = live_task();
  if (!t) {
    gb[1] = 0;
    __atomic_store_n(gb, 1, __ATOMIC_RELEASE);
    return;
  }
  t->in_rt = 1;
  yield_point(t, EV_GUARD, 1, PC());
  SyncObj* s = sync_lookup((uintptr_t)gv, SK_GUARD, true);
  s->state = G_DONE;
  s->owner = -1;
  release_store(t, s);
  // the inline fast path performs an acquire load of byte 0 through __tsan_atomic8_load, which
  // looks up the sync object of the same address: use the same object for both
  __atomic_store_n(gb, 1, __ATOMIC_RELEASE);
  if (t->in_init > 0) t->in_init--;
  wake_waiters((uintptr_t)gv);
  t->in_rt = 0;
}

void __cxa_guard_abort(long* gv) {
  char* gb = (char*)gv;
  Task* t = live_task();
  if (!t) {
    gb[1] = 0;
    return;
  }
  t->in_rt = 1;
  yield_point(t, EV_GUARD, 2, PC());
  SyncObj* s = sync_lookup((uintptr_t)gv, SK_GUARD, true);
  s->state = G_UNINIT;
  s->owner = -1;
  if (t->in_init > 0) t->in_init--;
  wake_waiters((uintptr_t)gv);
  t->in_rt = 0;
}

// ============================================================================================
// pthread primitives
// ============================================================================================

int pthread_mutex_lock(pthread_mutex_t* m) {
  Task* t = live_task();
  if (!t) {
    if (!real_mutex_lock) resolve_real();
    return real_mutex_lock(m);
  }
  t->in_rt = 1;
  yield_point(t, EV_MUTEX, 0, PC());
  SyncObj* s = sync_lookup((uintptr_t)m, SK_MUTEX, true);
  for (;;) {
    if (s->owner < 0) {
      s->owner = t->id;
      s->recursion = 1;
      acquire(t, s);
      break;
    }
    if (s->owner == t->id) {
      // recursive mutex (or self-deadlock on a normal one, which we report as deadlock)
      int kind = 0;
      pthread_mutexattr_t* unused = nullptr;
      (void)unused;
      kind = m->__data.__kind & 127;
      if (kind == PTHREAD_MUTEX_RECURSIVE_NP) {
        s->recursion++;
        break;
      }
      g.res->deadlock = 1;
      end_run_abnormally();
    }
    g.res->mutex_block++;
    block_on(t, (uintptr_t)m);
  }
  after_acquire(t);
  t->in_rt = 0;
  return 0;
}

int pthread_mutex_trylock(pthread_mutex_t* m) {
  Task* t = live_task();
  if (!t) {
    if (!real_mutex_trylock) resolve_real();
    return real_mutex_trylock(m);
  }
  t->in_rt = 1;
  yield_point(t, EV_MUTEX, 2, PC());
  SyncObj* s = sync_lookup((uintptr_t)m, SK_MUTEX, true);
  int rc = EBUSY;
  if (s->owner < 0) {
    s->owner = t->id;
    s->recursion = 1;
    acquire(t, s);
    rc = 0;
  } else if (s->owner == t->id && (m->__data.__kind & 127) == PTHREAD_MUTEX_RECURSIVE_NP) {
    s->recursion++;
    rc = 0;
  }
  t->in_rt = 0;
  return rc;
}

int pthread_mutex_unlock(pthread_mutex_t* m) {
  Task* t = live_task();
  if (!t) {
    if (!real_mutex_unlock) resolve_real();
    return real_mutex_unlock(m);
  }
  t->in_rt = 1;
  yield_point(t, EV_MUTEX, 1, PC());
  SyncObj* s = sync_lookup((uintptr_t)m, SK_MUTEX, true);
  if (s->owner == t->id) {
    if (--s->recursion <= 0) {
      s->owner = -1;
      release_store(t, s);
      wake_waiters((uintptr_t)m);
    }
  }
  t->in_rt = 0;
  return 0;
}

int pthread_once(pthread_once_t* oc, void (*fn)(void)) {
  Task* t = live_task();
  if (!t) {
    if (!real_once) resolve_real();
    return real_once(oc, fn);
  }
  t->in_rt = 1;
  yield_point(t, EV_ONCE, 0, PC());
  SyncObj* s = sync_lookup((uintptr_t)oc, SK_ONCE, true);
  for (;;) {
    if (*oc == 2 /* glibc: __PTHREAD_ONCE_DONE */) {
      acquire(t, s);
      t->in_rt = 0;
      return 0;
    }
    if (s->state == G_DONE) {
      // the control word says "not done": this is a new once-object in recycled memory (e.g. the
      // shared state of a later std::async at the address of an earlier one)
      s->state = 0;
      s->owner = -1;
      __real_memset(s->vc, 0, sizeof s->vc);
    }
    if (s->state == G_INPROGRESS) {
      if (s->owner == t->id) unsupported(t, "recursive pthread_once");
      block_on(t, (uintptr_t)oc);
      continue;
    }
    s->state = G_INPROGRESS;
    s->owner = t->id;
    break;
  }
  t->in_rt = 0;
  fn();
  t->in_rt = 1;
  yield_point(t, EV_ONCE, 1, PC());
  s->state = G_DONE;
  s->owner = -1;
  *oc = 2;
  release_store(t, s);
  wake_waiters((uintptr_t)oc);
  t->in_rt = 0;
  return 0;
}

int pthread_create(pthread_t* th, const pthread_attr_t* at, void* (*fn)(void*), void* arg) {
  Task* t = live_task();
  if (t) return create_dynamic_task(t, th, fn, arg, PC());
  if (!real_pthread_create) resolve_real();
  return real_pthread_create(th, at, fn, arg);
}

int pthread_join(pthread_t th, void** ret) {
  Task* t = live_task();
  if (!real_pthread_join) resolve_real();
  if (!t) return real_pthread_join(th, ret);
  Task* target = task_of_thread(th);
  if (!target) return real_pthread_join(th, ret);
  t->in_rt = 1;
  yield_point(t, EV_MUTEX, 12, PC());
  while (target->state != T_DONE) block_on(t, (uintptr_t)target | 2);
  vc_join(t->vc, target->vc);  // join edge
  __atomic_store_n(&target->exit_gate, 1, __ATOMIC_RELEASE);
  futex(&target->exit_gate, FUTEX_WAKE_PRIVATE, 1);
  int rc = real_pthread_join(th, ret);  // the real thread is past its last simulated event
  munmap((void*)(target->stack_lo - 4096), target->stack_sz + 8192);
  target->reaped = 1;
  t->in_rt = 0;
  return rc;
}

int pthread_detach(pthread_t th) {
  Task* t = live_task();
  if (!real_pthread_detach) resolve_real();
  if (t) {
    if (Task* target = task_of_thread(th)) target->detached = 1;
  }
  return real_pthread_detach(th);
}

// ---- condition variables: wait releases the (modelled) mutex and blocks until signalled ----
static int cond_wait_model(Task* t, pthread_cond_t* c, pthread_mutex_t* m, bool timed, uint32_t pc) {
  t->in_rt = 1;
  yield_point(t, EV_MUTEX, 4, pc);
  SyncObj* ms = sync_lookup((uintptr_t)m, SK_MUTEX, true);
  SyncObj* cs = sync_lookup((uintptr_t)c, SK_ATOMIC, true);
  // release the mutex
  if (ms->owner == t->id) {
    ms->owner = -1;
    ms->recursion = 0;
    release_store(t, ms);
    wake_waiters((uintptr_t)m);
  }
  // wait for a signal; a timed wait is released (ETIMEDOUT) when nothing else can run
  t->cond_signalled = 0;
  t->timed_wait = timed;
  block_on(t, (uintptr_t)c);
  int rc = t->cond_signalled ? 0 : ETIMEDOUT;
  t->timed_wait = 0;
  acquire(t, cs);
  // re-acquire the mutex
  for (;;) {
    if (ms->owner < 0) {
      ms->owner = t->id;
      ms->recursion = 1;
      acquire(t, ms);
      break;
    }
    g.res->mutex_block++;
    block_on(t, (uintptr_t)m);
  }
  t->in_rt = 0;
  return rc;
}
static int cond_signal_model(Task* t, pthread_cond_t* c, bool all, uint32_t pc) {
  t->in_rt = 1;
  yield_point(t, EV_MUTEX, 5, pc);
  SyncObj* cs = sync_lookup((uintptr_t)c, SK_ATOMIC, true);
  release_join(t, cs);
  // notify_one may wake ANY waiter: which one is a function of the simulated time of the call, so
  // that it varies from schedule to schedule and is the same whenever the schedule is replayed
  int nwait = 0;
  for (int i = 0; i < g.ntasks; ++i)
    if (g.tasks[i].state == T_BLOCKED && g.tasks[i].blocked_on == (uintptr_t)c) nwait++;
  int pick = (!all && nwait > 1) ? (int)(mix64(g.step ^ ((uintptr_t)c << 20)) % (uint64_t)nwait) : 0;
  for (int i = 0; i < g.ntasks; ++i) {
    Task& w = g.tasks[i];
    if (w.state == T_BLOCKED && w.blocked_on == (uintptr_t)c) {
      if (!all && pick-- > 0) continue;
      w.state = T_RUN;
      w.blocked_on = 0;
      w.cond_signalled = 1;
      if (!all) break;
    }
  }
  t->in_rt = 0;
  return 0;
}

int pthread_cond_wait(pthread_cond_t* c, pthread_mutex_t* m) {
  Task* t = live_task();
  if (t) return cond_wait_model(t, c, m, false, PC());
  if (!real_cond_wait) resolve_real();
  return real_cond_wait(c, m);
}
int pthread_cond_timedwait(pthread_cond_t* c, pthread_mutex_t* m, const struct timespec* ts) {
  Task* t = live_task();
  if (t) return cond_wait_model(t, c, m, true, PC());
  if (!real_cond_timedwait) resolve_real();
  return real_cond_timedwait(c, m, ts);
}
int pthread_cond_clockwait(pthread_cond_t* c, pthread_mutex_t* m, clockid_t, const struct timespec* ts) {
  Task* t = live_task();
  if (t) return cond_wait_model(t, c, m, true, PC());
  if (!real_cond_timedwait) resolve_real();
  return real_cond_timedwait(c, m, ts);
}
int pthread_mutex_timedlock(pthread_mutex_t* m, const struct timespec*) { return pthread_mutex_lock(m); }
int pthread_mutex_clocklock(pthread_mutex_t* m, clockid_t, const struct timespec*) { return pthread_mutex_lock(m); }
int pthread_cond_signal(pthread_cond_t* c) {
  Task* t = live_task();
  if (t) return cond_signal_model(t, c, false, PC());
  if (!real_cond_signal) resolve_real();
  return real_cond_signal(c);
}
int pthread_cond_broadcast(pthread_cond_t* c) {
  Task* t = live_task();
  if (t) return cond_signal_model(t, c, true, PC());
  if (!real_cond_broadcast) resolve_real();
  return real_cond_broadcast(c);
}

// ---- reader/writer locks: `recursion` counts readers, `owner` is the writer; the readers' release
// clock lives in a second sync object keyed by address+1 ----
static int rwlock_model(Task* t, pthread_rwlock_t* l, bool write, bool try_only, uint32_t pc) {
  t->in_rt = 1;
  yield_point(t, EV_MUTEX, write ? 6 : 7, pc);
  SyncObj* ws = sync_lookup((uintptr_t)l, SK_MUTEX, true);
  SyncObj* rs = sync_lookup((uintptr_t)l + 1, SK_MUTEX, true);
  for (;;) {
    bool free_for_me = write ? (ws->owner < 0 && ws->recursion == 0) : (ws->owner < 0);
    if (free_for_me) {
      if (write) {
        ws->owner = t->id;
        acquire(t, ws);
        acquire(t, rs);
      } else {
        ws->recursion++;
        acquire(t, ws);
      }
      break;
    }
    if (ws->owner == t->id) {
      g.res->deadlock = 1;
      end_run_abnormally();
    }
    if (try_only) {
      t->in_rt = 0;
      return EBUSY;
    }
    g.res->mutex_block++;
    block_on(t, (uintptr_t)l);
  }
  after_acquire(t);
  t->in_rt = 0;
  return 0;
}
int pthread_rwlock_rdlock(pthread_rwlock_t* l) {
  Task* t = live_task();
  if (t) return rwlock_model(t, l, false, false, PC());
  if (!real_rdlock) resolve_real();
  return real_rdlock(l);
}
int pthread_rwlock_wrlock(pthread_rwlock_t* l) {
  Task* t = live_task();
  if (t) return rwlock_model(t, l, true, false, PC());
  if (!real_wrlock) resolve_real();
  return real_wrlock(l);
}
int pthread_rwlock_tryrdlock(pthread_rwlock_t* l) {
  Task* t = live_task();
  if (t) return rwlock_model(t, l, false, true, PC());
  if (!real_tryrdlock) resolve_real();
  return real_tryrdlock(l);
}
int pthread_rwlock_trywrlock(pthread_rwlock_t* l) {
  Task* t = live_task();
  if (t) return rwlock_model(t, l, true, true, PC());
  if (!real_trywrlock) resolve_real();
  return real_trywrlock(l);
}
int pthread_rwlock_unlock(pthread_rwlock_t* l) {
  Task* t = live_task();
  if (!t) {
    if (!real_rwunlock) resolve_real();
    return real_rwunlock(l);
  }
  t->in_rt = 1;
  yield_point(t, EV_MUTEX, 8, PC());
  SyncObj* ws = sync_lookup((uintptr_t)l, SK_MUTEX, true);
  SyncObj* rs = sync_lookup((uintptr_t)l + 1, SK_MUTEX, true);
  if (ws->owner == t->id) {
    ws->owner = -1;
    release_store(t, ws);
  } else if (ws->recursion > 0) {
    ws->recursion--;
    release_join(t, rs);
  }
  wake_waiters((uintptr_t)l);
  t->in_rt = 0;
  return 0;
}
// ---- POSIX semaphores: the count stays in the real object (sem_trywait / sem_post never block);
// waiting and the happens-before edge post -> wait are modelled ----
static int sem_wait_model(Task* t, sem_t* sm, bool try_only, bool timed, uint32_t pc) {
  t->in_rt = 1;
  yield_point(t, EV_MUTEX, 13, pc);
  SyncObj* s = sync_lookup((uintptr_t)sm, SK_ATOMIC, true);
  int rc = 0;
  for (;;) {
    if (real_sem_trywait(sm) == 0) {
      acquire(t, s);
      break;
    }
    if (try_only) { errno = EAGAIN; rc = -1; break; }
    t->cond_signalled = 0;
    t->timed_wait = timed;
    block_on(t, (uintptr_t)sm | 1);
    t->timed_wait = 0;
    if (timed && !t->cond_signalled) { errno = ETIMEDOUT; rc = -1; break; }
  }
  t->in_rt = 0;
  return rc;
}
int sem_wait(sem_t* sm) {
  Task* t = live_task();
  if (!real_sem_wait) resolve_real();
  if (t) return sem_wait_model(t, sm, false, false, PC());
  return real_sem_wait(sm);
}
int sem_trywait(sem_t* sm) {
  Task* t = live_task();
  if (!real_sem_wait) resolve_real();
  if (t) return sem_wait_model(t, sm, true, false, PC());
  return real_sem_trywait(sm);
}
int sem_timedwait(sem_t* sm, const struct timespec*) {
  Task* t = live_task();
  if (!real_sem_wait) resolve_real();
  if (t) return sem_wait_model(t, sm, false, true, PC());
  return real_sem_wait(sm);
}
int sem_clockwait(sem_t* sm, clockid_t, const struct timespec*) {
  Task* t = live_task();
  if (!real_sem_wait) resolve_real();
  if (t) return sem_wait_model(t, sm, false, true, PC());
  return real_sem_wait(sm);
}
int sem_post(sem_t* sm) {
  Task* t = live_task();
  if (!real_sem_wait) resolve_real();
  if (!t) return real_sem_post(sm);
  t->in_rt = 1;
  yield_point(t, EV_MUTEX, 14, PC());
  SyncObj* s = sync_lookup((uintptr_t)sm, SK_ATOMIC, true);
  release_join(t, s);
  int rc = real_sem_post(sm);
  for (int i = 0; i < g.ntasks; ++i) {  // one waiter gets to retry
    Task& w = g.tasks[i];
    if (w.state == T_BLOCKED && w.blocked_on == ((uintptr_t)sm | 1)) {
      w.state = T_RUN;
      w.blocked_on = 0;
      w.cond_signalled = 1;
      break;
    }
  }
  t->in_rt = 0;
  return rc;
}

// ---- spin locks: the same model as a (non-recursive) mutex; a real spin under the baton would never end ----
int pthread_spin_lock(pthread_spinlock_t* l) {
  Task* t = live_task();
  if (!real_spin_lock) resolve_real();
  if (!t) return real_spin_lock(l);
  t->in_rt = 1;
  yield_point(t, EV_MUTEX, 0, PC());
  SyncObj* s = sync_lookup((uintptr_t)l, SK_MUTEX, true);
  for (;;) {
    if (s->owner < 0) {
      s->owner = t->id;
      s->recursion = 1;
      acquire(t, s);
      break;
    }
    if (s->owner == t->id) {
      g.res->deadlock = 1;
      end_run_abnormally();
    }
    g.res->mutex_block++;
    block_on(t, (uintptr_t)l);
  }
  after_acquire(t);
  t->in_rt = 0;
  return 0;
}
int pthread_spin_trylock(pthread_spinlock_t* l) {
  Task* t = live_task();
  if (!real_spin_lock) resolve_real();
  if (!t) return real_spin_trylock(l);
  t->in_rt = 1;
  yield_point(t, EV_MUTEX, 2, PC());
  SyncObj* s = sync_lookup((uintptr_t)l, SK_MUTEX, true);
  int rc = EBUSY;
  if (s->owner < 0) {
    s->owner = t->id;
    s->recursion = 1;
    acquire(t, s);
    rc = 0;
  }
  t->in_rt = 0;
  return rc;
}
int pthread_spin_unlock(pthread_spinlock_t* l) {
  Task* t = live_task();
  if (!real_spin_lock) resolve_real();
  if (!t) return real_spin_unlock(l);
  t->in_rt = 1;
  yield_point(t, EV_MUTEX, 1, PC());
  SyncObj* s = sync_lookup((uintptr_t)l, SK_MUTEX, true);
  if (s->owner == t->id) {
    s->owner = -1;
    s->recursion = 0;
    release_store(t, s);
    wake_waiters((uintptr_t)l);
  }
  t->in_rt = 0;
  return 0;
}
// sleeping inside an operation (back-off loops): simulated time has no duration to wait for, the
// sleeper simply lets every other runnable task go first
static int sleep_model(Task* t, uint32_t pc) {
  t->in_rt = 1;
  yield_point(t, EV_CLOCK, 1, pc);
  if (g.cfg.strategy != S_EXPLICIT) {
    int to = next_rr(t->id);
    if (to >= 0) do_switch(t, to, 7);
  } else {
    explicit_post(t, 7);
  }
  t->in_rt = 0;
  return 0;
}
int nanosleep(const struct timespec* a, struct timespec* b) {
  Task* t = live_task();
  if (t) return sleep_model(t, PC());
  if (!real_nanosleep) resolve_real();
  return real_nanosleep(a, b);
}
int clock_nanosleep(clockid_t, int, const struct timespec* a, struct timespec* b) {
  Task* t = live_task();
  if (t) return sleep_model(t, PC());
  if (!real_nanosleep) resolve_real();
  return real_nanosleep(a, b);
}
int usleep(useconds_t us) {
  Task* t = live_task();
  if (t) return sleep_model(t, PC());
  if (!real_usleep) resolve_real();
  return real_usleep(us);
}
int sched_yield(void) {
  Task* t = live_task();
  if (!t) {
    if (!real_sched_yield) resolve_real();
    return real_sched_yield();
  }
  // a spinning task must let others run: treat as an immediate hand-off to the next runnable task
  t->in_rt = 1;
  yield_point(t, EV_MUTEX, 3, PC());
  if (g.cfg.strategy != S_EXPLICIT) {
    int to = next_rr(t->id);
    if (to >= 0) do_switch(t, to, 7);
  } else {
    explicit_post(t, 7);  // in a replay: the recorded hand-off, after a possible strategy switch at the same point
  }
  t->in_rt = 0;
  return 0;
}

// ---- futex waits issued through the libc `syscall` wrapper (std::atomic<T>::wait / notify_*,
// std::latch, std::barrier, std::counting_semaphore in libstdc++): modelled as block / wake on the
// address; everything else is passed to the kernel ----
long syscall(long number, ...) {
  va_list ap;
  va_start(ap, number);
  long a = va_arg(ap, long), b = va_arg(ap, long), c = va_arg(ap, long), d = va_arg(ap, long), e = va_arg(ap, long),
       f = va_arg(ap, long);
  va_end(ap);
  Task* t = (number == SYS_futex) ? live_task() : nullptr;
  if (!t) {
    long rc = raw_syscall6(number, a, b, c, d, e, f);
    if (rc < 0 && rc > -4096) { errno = (int)-rc; return -1; }
    return rc;
  }
  int op = (int)b & 127 & ~FUTEX_PRIVATE_FLAG;
  t->in_rt = 1;
  long rc = 0;
  if (op == FUTEX_WAIT || op == FUTEX_WAIT_BITSET) {
    yield_point(t, EV_MUTEX, 9, PC());
    SyncObj* s = sync_lookup((uintptr_t)a, SK_ATOMIC, true);
    if (__atomic_load_n((int*)a, __ATOMIC_SEQ_CST) != (int)c) {
      errno = EAGAIN;
      rc = -1;
    } else {
      t->cond_signalled = 0;
      t->timed_wait = d != 0;  // a timeout was given: may time out when nothing else can run
      block_on(t, (uintptr_t)a | 1);  // distinct from mutex / cond waits on the same address
      t->timed_wait = 0;
      acquire(t, s);
      if (!t->cond_signalled) { errno = ETIMEDOUT; rc = -1; }
    }
  } else if (op == FUTEX_WAKE || op == FUTEX_WAKE_BITSET) {
    yield_point(t, EV_MUTEX, 10, PC());
    SyncObj* s = sync_lookup((uintptr_t)a, SK_ATOMIC, true);
    release_join(t, s);
    long n = 0;
    // when fewer waiters are woken than are waiting, which ones is a function of simulated time
    const int start = (int)(mix64(g.step ^ ((uintptr_t)a << 20)) % (uint64_t)g.ntasks);
    for (int k = 0; k < g.ntasks && n < c; ++k) {
      const int i = (start + k) % g.ntasks;
      Task& w = g.tasks[i];
      if (w.state == T_BLOCKED && w.blocked_on == ((uintptr_t)a | 1)) {
        w.state = T_RUN;
        w.blocked_on = 0;
        w.cond_signalled = 1;
        ++n;
      }
    }
    rc = n;
  } else {
    unsupported(t, "futex operation other than wait/wake");
  }
  t->in_rt = 0;
  return rc;
}

// ---- simulated clock: the only clock the instrumented code can read ----
int clock_gettime(clockid_t id, struct timespec* ts) {
  Task* t = live_task();
  if (!t) {
    long rc = raw_syscall6(SYS_clock_gettime, (long)id, (long)ts, 0, 0, 0, 0);
    if (rc < 0) { errno = (int)-rc; return -1; }
    return 0;
  }
  t->in_rt = 1;
  yield_point(t, EV_CLOCK, 0, PC());
  const uint64_t now_ns = g.step + g.clock_offset;  // one event = one nanosecond, plus injected jumps
  ts->tv_sec = (time_t)(now_ns / 1000000000ull);
  ts->tv_nsec = (long)(now_ns % 1000000000ull);
  t->in_rt = 0;
  return 0;
}

// ============================================================================================
// allocation (linked with -Wl,--wrap=malloc,--wrap=free,--wrap=calloc,--wrap=realloc,
//             --wrap=posix_memalign,--wrap=aligned_alloc,--wrap=memalign)
// ============================================================================================

void* __real_malloc(size_t);
void __real_free(void*);
void* __real_calloc(size_t, size_t);
void* __real_realloc(void*, size_t);
int __real_posix_memalign(void**, size_t, size_t);
void* __real_aligned_alloc(size_t, size_t);
void* __real_memalign(size_t, size_t);

static inline void alloc_event(uint32_t pc, unsigned size) {
  Task* t = live_task();
  if (!t) return;
  t->in_rt = 1;
  yield_point(t, EV_ALLOC, size > 0xffff ? 0xffff : size, pc);
  t->in_rt = 0;
}
// a block handed out by the allocator is fresh: whatever was recorded for its addresses belongs to
// a previous owner (it may have been freed inside an uninstrumented library, invisibly to us)
static inline void on_alloc(void* p, size_t n) {
  if (!p) return;
  Task* t = tl_task;
  if (t && g.active) {
    int saved = t->in_rt;
    t->in_rt = 1;
    shadow_clear((uintptr_t)p, n);
    t->in_rt = saved;
  }
}
static inline void on_free(void* p) {
  if (!p) return;
  Task* t = tl_task;
  if (t && g.active) {
    int saved = t->in_rt;
    t->in_rt = 1;
    shadow_clear((uintptr_t)p, malloc_usable_size(p));
    t->in_rt = saved;
  }
}

void* __wrap_malloc(size_t n) {
  alloc_event(PC(), (unsigned)n);
  void* p = __real_malloc(n);
  on_alloc(p, n);
  return p;
}
void __wrap_free(void* p) {
  if (!p) return;
  alloc_event(PC(), 0);
  on_free(p);
  __real_free(p);
}
void* __wrap_calloc(size_t a, size_t b) {
  alloc_event(PC(), (unsigned)(a * b));
  void* p = __real_calloc(a, b);
  on_alloc(p, a * b);
  return p;
}
void* __wrap_realloc(void* p, size_t n) {
  alloc_event(PC(), (unsigned)n);
  on_free(p);
  void* q = __real_realloc(p, n);
  on_alloc(q, n);
  return q;
}
int __wrap_posix_memalign(void** out, size_t al, size_t n) {
  alloc_event(PC(), (unsigned)n);
  int rc = __real_posix_memalign(out, al, n);
  if (rc == 0) on_alloc(*out, n);
  return rc;
}
void* __wrap_aligned_alloc(size_t al, size_t n) {
  alloc_event(PC(), (unsigned)n);
  void* p = __real_aligned_alloc(al, n);
  on_alloc(p, n);
  return p;
}
void* __wrap_memalign(size_t al, size_t n) {
  alloc_event(PC(), (unsigned)n);
  void* p = __real_memalign(al, n);
  on_alloc(p, n);
  return p;
}

// exception objects are allocated and freed inside libstdc++.so; the object itself is constructed
// by (possibly instrumented) code at the throw site
void* __real___cxa_allocate_exception(size_t);
void* __wrap___cxa_allocate_exception(size_t n) {
  void* p = __real___cxa_allocate_exception(n);
  on_alloc(p, n);
  return p;
}

// bulk memory operations called from instrumented objects
void* __real_memcpy(void*, const void*, size_t);
void* __real_memmove(void*, const void*, size_t);
void* __real_memset(void*, int, size_t);

void* __wrap_memcpy(void* d, const void* s, size_t n) {
  if (n) {
    uint32_t pc = PC();
    on_access((uintptr_t)s, n, false, pc);
    on_access((uintptr_t)d, n, true, pc);
  }
  return __real_memcpy(d, s, n);
}
void* __wrap_memmove(void* d, const void* s, size_t n) {
  if (n) {
    uint32_t pc = PC();
    on_access((uintptr_t)s, n, false, pc);
    on_access((uintptr_t)d, n, true, pc);
  }
  return __real_memmove(d, s, n);
}
void* __wrap_memset(void* d, int c, size_t n) {
  if (n) on_access((uintptr_t)d, n, true, PC());
  return __real_memset(d, c, n);
}

}  // extern "C"

// ---- replaceable global allocation functions: every `new` in the process goes through here ----
static inline void* new_impl(size_t n, uint32_t pc) {
  alloc_event(pc, (unsigned)n);
  void* p = __real_malloc(n ? n : 1);
  on_alloc(p, n);
  return p;
}
static inline void* new_aligned_impl(size_t n, size_t al, uint32_t pc) {
  alloc_event(pc, (unsigned)n);
  void* p = nullptr;
  if (__real_posix_memalign(&p, al < sizeof(void*) ? sizeof(void*) : al, n ? n : 1)) return nullptr;
  on_alloc(p, n);
  return p;
}
static inline void delete_impl(void* p, uint32_t pc) {
  if (!p) return;
  alloc_event(pc, 0);
  on_free(p);
  __real_free(p);
}

void* operator new(size_t n) {
  void* p = new_impl(n, PC());
  if (!p) throw std::bad_alloc();
  return p;
}
void* operator new[](size_t n) {
  void* p = new_impl(n, PC());
  if (!p) throw std::bad_alloc();
  return p;
}
void* operator new(size_t n, const std::nothrow_t&) noexcept { return new_impl(n, PC()); }
void* operator new[](size_t n, const std::nothrow_t&) noexcept { return new_impl(n, PC()); }
void* operator new(size_t n, std::align_val_t al) {
  void* p = new_aligned_impl(n, (size_t)al, PC());
  if (!p) throw std::bad_alloc();
  return p;
}
void* operator new[](size_t n, std::align_val_t al) {
  void* p = new_aligned_impl(n, (size_t)al, PC());
  if (!p) throw std::bad_alloc();
  return p;
}
void* operator new(size_t n, std::align_val_t al, const std::nothrow_t&) noexcept {
  return new_aligned_impl(n, (size_t)al, PC());
}
void* operator new[](size_t n, std::align_val_t al, const std::nothrow_t&) noexcept {
  return new_aligned_impl(n, (size_t)al, PC());
}
void operator delete(void* p) noexcept { delete_impl(p, PC()); }
void operator delete[](void* p) noexcept { delete_impl(p, PC()); }
void operator delete(void* p, size_t) noexcept { delete_impl(p, PC()); }
void operator delete[](void* p, size_t) noexcept { delete_impl(p, PC()); }
void operator delete(void* p, const std::nothrow_t&) noexcept { delete_impl(p, PC()); }
void operator delete[](void* p, const std::nothrow_t&) noexcept { delete_impl(p, PC()); }
void operator delete(void* p, std::align_val_t) noexcept { delete_impl(p, PC()); }
void operator delete[](void* p, std::align_val_t) noexcept { delete_impl(p, PC()); }
void operator delete(void* p, size_t, std::align_val_t) noexcept { delete_impl(p, PC()); }
void operator delete[](void* p, size_t, std::align_val_t) noexcept { delete_impl(p, PC()); }
void operator delete(void* p, std::align_val_t, const std::nothrow_t&) noexcept { delete_impl(p, PC()); }
void operator delete[](void* p, std::align_val_t, const std::nothrow_t&) noexcept { delete_impl(p, PC()); }
