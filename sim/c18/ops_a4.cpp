#include "ops_lie.hpp"
using Bun3 = smooth::Bundle<smooth::SO3d, Eigen::Vector3d, smooth::SE2d>;
using BunN = smooth::Bundle<smooth::Bundle<smooth::SO2d, Eigen::Vector2d>, smooth::SE3d, smooth::C1d>;
REG_LIE(Bun3, Bun3);
REG_LIE(BunN, BunN);
REG_LIE(Eigen::Vector3d, R3d);
REG_LIE(Eigen::VectorXd, RXd);
REG_LIE(double, Scalard);
REG_LIE(smooth::SO3f, SO3f);
REG_LIE(smooth::SE3f, SE3f);
REG_LIE(smooth::SE2f, SE2f);
REG_LIE(smooth::C1f, C1f);
