#include "ops_spline.hpp"
using namespace smooth;
REG_CSPL(3, SO3d, Cs3SO3d);
REG_CSPL(2, SE2d, Cs2SE2d);
REG_CSPL(4, SE3d, Cs4SE3d);
using SE23d_c = smooth::SE_K_3<double, 2>;
REG_CSPL(3, Galileid, Cs3Galileid);
REG_BSPLINE(3, Galileid, Bs3Galileid);
REG_BSPLINE(2, C1d, Bs2C1d);
REG_SPLINE(3, SE23d_c, Sp3SE23d);
