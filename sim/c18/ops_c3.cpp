#include "ops_spline.hpp"
using namespace smooth;
REG_CSPL(3, SO3d, Cs3SO3d);
REG_CSPL(2, SE2d, Cs2SE2d);
REG_CSPL(4, SE3d, Cs4SE3d);
