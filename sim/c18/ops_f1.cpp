#include "ops_optim.hpp"
using namespace smooth;
REG_OPTIM(SO3d, SO3d);
