#include "ops_lie.hpp"
REG_LIE(smooth::SE2d, SE2d);
REG_LIE(smooth::SE3d, SE3d);
