// Family F once more, compiled the way the upstream test-suite compiles the library: with
// SMOOTH_HAS_FMT (the verbose path of minimize then formats through {fmt}). Two translation units
// (this one and ops_f4.cpp), because namespace-scope `static` objects of a header exist once per
// translation unit: a lock declared that way does not exclude callers in another .cpp file.
#define SMOOTH_HAS_FMT 1
#define FMT_HEADER_ONLY 1
#include "ops_optim.hpp"
using namespace smooth;
namespace {
struct Tag_OptimSO3dFmt {
  static constexpr const char* elem = "elem.SO3d";
  static constexpr const char* lie = "minimize.SO3d+fmt";
};
}  // namespace
static ::ops::Registrar reg_optim_SO3d_fmt(&::ops::OptimOps<SO3d, Tag_OptimSO3dFmt>::def);
