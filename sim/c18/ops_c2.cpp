#include "ops_spline.hpp"
using namespace smooth;
REG_BSPLINE(1, SO3d, Bs1SO3d);
REG_BSPLINE(2, SE2d, Bs2SE2d);
REG_BSPLINE(3, SO3d, Bs3SO3d);
REG_BSPLINE(3, SE3d, Bs3SE3d);
REG_BSPLINE(4, Eigen::Vector3d, Bs4R3d);
REG_BSPLINE(5, SO3d, Bs5SO3d);
