#include "ops_optim.hpp"
using namespace smooth;
REG_OPTIM(SE2d, SE2d);
