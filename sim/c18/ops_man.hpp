// Family B: Manifold interface (rplus / rminus / dof / cast / copy) on shared const objects of the
// composite manifold models: std::vector<G>, std::variant<...>, SubManifold<G>, AnyManifold.
#pragma once
#include <variant>

#include "ops_common.hpp"
#include "smooth/manifolds/any.hpp"
#include "smooth/manifolds/submanifold.hpp"
#include "smooth/manifolds/variant.hpp"
#include "smooth/manifolds/vector.hpp"

namespace ops {

// description of one manifold model: how to build a deterministic instance and how to serialise it
template<class X>
struct ManIO;

// std::vector<G> of N elements (a tag, so that two sizes of the same std::vector<G> model can be registered)
template<class G, int N>
struct VecN {};

template<class G, int N>
struct ManIO<VecN<G, N>>;

template<class G>
struct ManIO<std::vector<G>> : ManIO<VecN<G, 3>> {};

// how to build / serialise one element of a vector manifold: Lie groups directly, other manifold
// models through their own ManIO
template<class E>
struct ElemIO {
  static int dof() { return dof_of<E>(); }
  static E make(In& in, int index) { return make_elem<E>(in, index); }
  static void put(Out& out, const E& e) { put_elem(out, e); }
  template<class C>
  static void put_cast(Out& out, const C& e) { put_elem(out, e); }
};
template<class G>
struct ElemIO<std::vector<G>> {
  using IO = ManIO<std::vector<G>>;
  static int dof() { return IO::dofhint(); }
  static std::vector<G> make(In& in, int index) {
    auto* p = IO::make(in, index);
    std::vector<G> v = *p;
    delete p;
    return v;
  }
  static void put(Out& out, const std::vector<G>& e) { IO::put(out, e); }
  template<class C>
  static void put_cast(Out& out, const C& e) { IO::put_cast(out, e); }
};
template<class... Gs>
struct ElemIO<std::variant<Gs...>> {
  using IO = ManIO<std::variant<Gs...>>;
  static int dof() { return IO::dofhint(); }
  static std::variant<Gs...> make(In& in, int index) {
    auto* p = IO::make(in, index);
    std::variant<Gs...> v = *p;
    delete p;
    return v;
  }
  static void put(Out& out, const std::variant<Gs...>& e) { IO::put(out, e); }
  template<class C>
  static void put_cast(Out& out, const C& e) { IO::put_cast(out, e); }
};

template<class G, int N>
struct ManIO<VecN<G, N>> {
  using M = std::vector<G>;
  static constexpr int n = N;
  static int dofhint() { return n * ElemIO<G>::dof(); }
  static M* make(In& in, int index) {
    auto* m = new M;
    for (int i = 0; i < n; ++i) m->push_back(ElemIO<G>::make(in, index + i));
    return m;
  }
  static void put(Out& out, const M& m) {
    out.i64((int64_t)m.size());
    for (const auto& g : m) ElemIO<G>::put(out, g);
  }
  static constexpr bool has_cast = true;
  template<class C>
  static void put_cast(Out& out, const C& m) {
    out.i64((int64_t)m.size());
    for (const auto& g : m) ElemIO<G>::put_cast(out, g);
  }
};

template<class... Gs>
struct ManIO<std::variant<Gs...>> {
  using M = std::variant<Gs...>;
  using G0 = std::tuple_element_t<sizeof...(Gs) - 1, std::tuple<Gs...>>;  // the last alternative
  static int dofhint() { return dof_of<G0>(); }
  static M* make(In& in, int index) { return new M(make_elem<G0>(in, index)); }
  static void put(Out& out, const M& m) {
    out.i64((int64_t)m.index());
    std::visit([&out](const auto& g) { put_elem(out, g); }, m);
  }
  static constexpr bool has_cast = true;
  template<class C>
  static void put_cast(Out& out, const C& m) {
    out.i64((int64_t)m.index());
    std::visit([&out](const auto& g) { put_elem(out, g); }, m);
  }
};

// fixed dimensions used for SubManifold<G>: {1} for dof<=3, {0, dof-2} otherwise
template<class G>
inline Eigen::VectorXi sub_fixed() {
  const int d = dof_of<G>();
  if (d <= 3) {
    Eigen::VectorXi f(1);
    f << 1;
    return f;
  }
  Eigen::VectorXi f(2);
  f << 0, d - 2;
  return f;
}
template<class G>
inline G sub_origin() {
  In in{0x5ab0f1dull};
  return make_elem<G>(in, 0);
}

template<class G>
struct ManIO<smooth::SubManifold<G>> {
  using M = smooth::SubManifold<G>;
  static int dofhint() { return dof_of<G>() - (int)sub_fixed<G>().size(); }
  static M* make(In& in, int index) { return new M(sub_origin<G>(), make_elem<G>(in, index), sub_fixed<G>()); }
  static void put(Out& out, const M& m) {
    put_elem(out, m.m());
    put_elem(out, m.m0());
    out.i64(m.fixed_dims().size());
    for (int i = 0; i < m.fixed_dims().size(); ++i) out.i64(m.fixed_dims()(i));
  }
  static constexpr bool has_cast = true;
  template<class C>
  static void put_cast(Out& out, const C& m) {
    put_elem(out, m.m());
    put_elem(out, m.m0());
  }
};

// AnyManifold holding a U
template<class U>
struct AnyOf {};

template<class U>
struct ManIO<AnyOf<U>> {
  using M = smooth::AnyManifold;
  static int dofhint() { return ManIO<U>::dofhint(); }
  static M* make(In& in, int index) {
    auto* u = ManIO<U>::make(in, index);
    auto* m = new M(*u);
    delete u;
    return m;
  }
  static void put(Out& out, const M& m) {
    out.i64(m.dof());
    ManIO<U>::put(out, m.template get<typename ManIO<U>::M>());
  }
  static constexpr bool has_cast = false;
};

// plain Lie group as Manifold (used as the AnyManifold payload)
template<class G>
struct PlainG {};
template<class G>
struct ManIO<PlainG<G>> {
  using M = G;
  static int dofhint() { return dof_of<G>(); }
  static M* make(In& in, int index) { return new M(make_elem<G>(in, index)); }
  static void put(Out& out, const M& m) { put_elem(out, m); }
  static constexpr bool has_cast = true;
  template<class C>
  static void put_cast(Out& out, const C& m) {
    put_elem(out, m);
  }
};

inline const char* const kManFn[] = {"rplus", "rminus", "dof", "cast", "copy", "rplus_rminus_chain", "member", "wrap_in_any"};
constexpr int kManNFn = sizeof(kManFn) / sizeof(kManFn[0]);

template<class X, class Tag>
struct ManOps {
  using IO = ManIO<X>;
  using M = typename IO::M;

  struct St {
    const M* a;
    const M* b;
    const Eigen::VectorXd* t;
  };

  static M* make(In& in, int index) { return IO::make(in, index); }
  static void digest(const M& m, Out& out) { IO::put(out, m); }
  static Eigen::VectorXd* make_t(In& in, int index) {
    return new Eigen::VectorXd(make_tangent<double, -1>(in, IO::dofhint(), index));
  }
  static void digest_t(const Eigen::VectorXd& t, Out& out) { put_mat(out, t); }

  static void prep(OpInst& op, Pool& pool) {
    auto* st = new St;
    st->a = &h::pool_get<M, &make, &digest>(pool, Tag::elem, (int)op.p[1]);
    st->b = &h::pool_get<M, &make, &digest>(pool, Tag::elem, (int)op.p[2]);
    st->t = &h::pool_get<Eigen::VectorXd, &make_t, &digest_t>(pool, Tag::tan, (int)op.p[2]);
    op.st = st;
  }

  static void run(OpInst& op, Out& out) {
    const auto* st = static_cast<const St*>(op.st);
    const M& a = *st->a;
    const M& b = *st->b;
    const Eigen::VectorXd& t = *st->t;
    switch (op.p[0]) {
      case 0: IO::put(out, smooth::rplus(a, t)); break;
      case 1: put_mat(out, smooth::rminus(a, b)); break;
      case 2: out.i64(smooth::dof(a)); break;
      case 3:
        if constexpr (IO::has_cast) IO::put_cast(out, smooth::cast<float>(a));
        else out.tag("n/a");
        break;
      case 4: {
        const M c(a);
        IO::put(out, c);
        break;
      }
      case 5: {
        const M c = smooth::rplus(a, t);
        put_mat(out, smooth::rminus(c, a));
        put_mat(out, smooth::rminus(a, b));
        IO::put(out, smooth::rplus(b, t));
        break;
      }
      case 6:
        if constexpr (requires { a.rplus(t); a.rminus(b); }) {
          IO::put(out, a.rplus(t));
          put_mat(out, a.rminus(b));
          out.i64(a.dof());
        } else {
          out.tag("n/a");
        }
        break;
      case 7: {
        // CONSTRUCTION of a type-erased wrapper from the shared const object, inside the run: for every
        // manifold model of the registry this is the first time the wrapper meets that type (whatever
        // AnyManifold keeps per wrapped type is initialised here, by several threads, for several types)
        const smooth::AnyManifold w(a);
        out.i64(w.dof());
        const smooth::AnyManifold w2 = w.rplus(t);
        put_mat(out, w2.rminus(w));
        // (constructing an AnyManifold from an AnyManifold copies it: what it holds is then the original payload)
        if constexpr (std::is_same_v<M, smooth::AnyManifold>) IO::put(out, w2);
        else IO::put(out, w2.template get<M>());
        const smooth::AnyManifold wb(b);
        put_mat(out, wb.rminus(w));
        break;
      }
      default: out.tag("?"); break;
    }
  }

  static constexpr OpDef def = {Tag::man, "B", kManNFn, kManFn, 3, 10, 0, 0, &prep, &run};
};

#define REG_MAN(X, NAME) \
  OPS_TAG(NAME);         \
  static ::ops::Registrar reg_man_##NAME(&::ops::ManOps<X, Tag_##NAME>::def)

}  // namespace ops
