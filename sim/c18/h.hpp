// C18 harness — declarations shared by the uninstrumented core (hcore.cpp, main.cpp) and the
// instrumented operation TUs (ops_*.cpp).  Everything declared here is *defined* in hcore.cpp
// (uninstrumented), so that harness bookkeeping is never an event of the simulation; only the
// operation templates in ops_*.cpp (which instantiate the library) are instrumented.
#pragma once
#include <cstddef>
#include <cstdint>

namespace h {

uint64_t mix64(uint64_t x);

// deterministic input stream: every private or pool input is derived from one 64-bit salt
struct In {
  uint64_t s;
  uint64_t u64();
  double unit();               // [0,1)
  double sym(double a);        // [-a,a)
  int64_t below(int64_t n);
};

// Output sink of one operation: a running hash over every byte plus a prefix kept for diagnosis.
struct Out {
  uint64_t hash;
  uint64_t len;
  uint32_t nprefix;
  uint8_t prefix[96];
  void reset();
  void put(const void* p, size_t n);
  void tag(const char* s);
  void i64(int64_t v);
  void f64(double v);
};

struct Pool;
struct OpInst;

struct OpDef {
  const char* name;      // e.g. "lie.SE3d"
  const char* family;    // A..G
  int nfn;               // number of selectable functions (p[0] in [0,nfn))
  const char* const* fn_names;
  int nobj;              // pool objects per kind available to this op (p[1],p[2] in [0,nobj))
  int weight;            // relative weight in generation
  int heavy;             // 1: expensive operation (capped share of the mix)
  int has_callback;      // 1: supports the callback_throw fault
  void (*prep)(OpInst&, Pool&);
  void (*run)(OpInst&, Out&);
};

struct OpInst {
  const OpDef* def;
  int64_t p[4];
  uint64_t salt;
  int32_t throw_at;   // callback_throw fault: throw at the k-th callable invocation (-1: never)
  int32_t rep;        // number of times the call is repeated inside the operation
  void* st;           // prepared state (pool pointers, private inputs); owned by the controller
  int32_t cb_count;   // callable invocations so far (task-private)
  int32_t iter;       // index of the current repetition of the call inside the operation (0..rep-1)
};

void reg(const OpDef* d);
size_t n_defs();
const OpDef* def_at(size_t i);
const OpDef* find_def(const char* name);

// exception thrown by fault-injecting callables; caught by the task body outside the library
struct HarnessThrow {
  int at;
};
// to be called by callables handed to the library
void cb_tick(OpInst& op);

// ---- pool of shared const objects -------------------------------------------------------------
// Objects are created lazily by the controller (never by a task) from (pool seed, kind, index)
// and are handed to operations as pointers-to-const.
typedef void* (*MakeFn)(In& in, int index);
typedef void (*DigestFn)(const void* obj, Out& out);

struct Pool {
  uint64_t seed;
  bool preparing = false;  // true while the preparation run builds the objects
  const void* get(const char* kind, int index, MakeFn make, DigestFn digest, size_t bytes);
  size_t size() const;
  void digest_all(Out& out) const;
  void register_regions() const;
  const char* kind_of_region(int id) const;
  int index_of_region(int id) const;
};
Pool& the_pool();

// typed convenience (instantiated in instrumented TUs; the object is built while the simulation is
// inactive, so its construction produces no events)
template<class T, T* (*Make)(In&, int)>
void* make_thunk(In& in, int index) {
  return Make(in, index);
}
template<class T, void (*Digest)(const T&, Out&)>
void digest_thunk(const void* obj, Out& out) {
  Digest(*static_cast<const T*>(obj), out);
}
template<class T, T* (*Make)(In&, int), void (*Digest)(const T&, Out&)>
const T& pool_get(Pool& pool, const char* kind, int index) {
  return *static_cast<const T*>(pool.get(kind, index, &make_thunk<T, Make>, &digest_thunk<T, Digest>, sizeof(T)));
}

}  // namespace h
