// Family H: polynomial, quadrature and search utilities called at run time on shared const data
// (they are pure today; a run-time cache added to any of them lands in C18's scope).
#include <array>
#include <vector>

#include "ops_common.hpp"
#include "smooth/derivatives.hpp"
#include "smooth/detail/utils.hpp"
#include "smooth/polynomial/basis.hpp"
#include "smooth/polynomial/quadrature.hpp"

namespace ops {

struct UtilData {
  std::vector<double> knots;   // sorted
  std::array<double, 5> nodes; // distinct
};
static UtilData* make_util(In& in, int index) {
  auto* d = new UtilData;
  double t = in.sym(1.0);
  for (int i = 0; i < 6 + 3 * index; ++i) {
    d->knots.push_back(t);
    t += 0.1 + in.unit();
  }
  double x = -1.0;
  for (auto& n : d->nodes) {
    n = x;
    x += 0.2 + 0.3 * in.unit();
  }
  return d;
}
static void digest_util(const UtilData& d, Out& out) {
  for (double k : d.knots) out.f64(k);
  for (double n : d.nodes) out.f64(n);
}

template<class M>
static void put_sm(Out& out, const M& m) {
  for (std::size_t i = 0; i < M::Rows; ++i)
    for (std::size_t j = 0; j < M::Cols; ++j) out.f64(m[i][j]);
}

static const char* const kUtilFn[] = {"monomial_derivatives", "basis_tables", "lagrange_basis", "basis_derivatives",
                                      "integrate_abs_poly", "binary_interval_search", "quadrature_nodes", "cumulative_basis",
                                      "d_matrix_product", "d2_fog"};

struct UtilSt {
  const UtilData* d;
};
static void util_prep(OpInst& op, Pool& pool) {
  auto* st = new UtilSt;
  st->d = &h::pool_get<UtilData, &make_util, &digest_util>(pool, "util.data", (int)op.p[1]);
  op.st = st;
}
static void util_run(OpInst& op, Out& out) {
  using namespace smooth;
  const UtilData& d = *static_cast<const UtilSt*>(op.st)->d;
  In in{op.salt};
  const double u = in.unit();
  switch (op.p[0]) {
    case 0:
      put_sm(out, monomial_derivatives<3, 3, double>(u));
      put_sm(out, monomial_derivatives<5, 2, double>(u));
      put_sm(out, monomial_derivative<4, double>(u, 1));
      break;
    case 1:
      put_sm(out, polynomial_basis<PolynomialBasis::Bernstein, 3>());
      put_sm(out, polynomial_basis<PolynomialBasis::Bspline, 4>());
      put_sm(out, polynomial_basis<PolynomialBasis::Hermite, 3>());
      put_sm(out, polynomial_basis<PolynomialBasis::Laguerre, 3>());
      put_sm(out, polynomial_basis<PolynomialBasis::Legendre, 4>());
      put_sm(out, polynomial_basis<PolynomialBasis::Chebyshev1st, 4>());
      break;
    case 2: put_sm(out, lagrange_basis<4>(d.nodes)); break;
    case 3: {
      const auto B = lagrange_basis<4>(d.nodes);
      put_sm(out, polynomial_basis_derivatives<4, 5>(B, d.nodes));
      break;
    }
    case 4:
      out.f64(integrate_absolute_polynomial(d.knots[0], d.knots[2], in.sym(2.0), in.sym(2.0), in.sym(2.0)));
      out.f64(integrate_absolute_polynomial(0., 1., 0., in.sym(2.0), in.sym(2.0)));
      out.f64(integrate_absolute_polynomial(0., 1., 0., 0., in.sym(2.0)));
      break;
    case 5:
      for (int i = 0; i < 6; ++i) {
        const double t = d.knots.front() - 0.5 + in.unit() * (d.knots.back() - d.knots.front() + 1.0);
        const auto it = utils::binary_interval_search(d.knots, t);
        out.i64(it == d.knots.end() ? -1 : (int64_t)(it - d.knots.begin()));
      }
      break;
    case 6: {
      const auto n1 = cgr_nodes<5>();
      for (double x : n1) out.f64(x);
      const auto [n2, w2] = lgr_nodes<6>();
      for (double x : n2) out.f64(x);
      for (double x : w2) out.f64(x);
      break;
    }
    case 7:
      put_sm(out, polynomial_cumulative_basis<PolynomialBasis::Bspline, 3>());
      put_sm(out, polynomial_cumulative_basis<PolynomialBasis::Bernstein, 5>());
      put_sm(out, monomial_integral<3, 2>());
      break;
    case 8: {
      // derivative of a matrix product, fixed and dynamic sizes (inputs derived from the shared knots)
      Eigen::Matrix<double, 3, 3> A, B;
      Eigen::Matrix<double, 3, 6> dA, dB;
      for (int i = 0; i < 3; ++i)
        for (int j = 0; j < 3; ++j) {
          A(i, j) = d.knots[(std::size_t)((i + j) % (int)d.knots.size())] + in.sym(0.1);
          B(i, j) = d.nodes[(std::size_t)((i * 2 + j) % 5)];
        }
      for (int i = 0; i < 3; ++i)
        for (int j = 0; j < 6; ++j) {
          dA(i, j) = in.sym(1.0);
          dB(i, j) = in.sym(1.0);
        }
      put_mat(out, d_matrix_product(A, dA, B, dB));
      const Eigen::MatrixXd Ad = A, Bd = B, dAd = dA, dBd = dB;
      put_mat(out, d_matrix_product(Ad, dAd, Bd, dBd));
      break;
    }
    case 9: {
      // second derivative of a composition f o g
      Eigen::Matrix<double, 2, 3> Jf;
      Eigen::Matrix<double, 3, 6> Hf;
      Eigen::Matrix<double, 3, 2> Jg;
      Eigen::Matrix<double, 2, 6> Hg;
      for (int i = 0; i < 2; ++i)
        for (int j = 0; j < 3; ++j) Jf(i, j) = d.nodes[(std::size_t)((i + j) % 5)] + in.sym(0.2);
      for (int i = 0; i < 3; ++i)
        for (int j = 0; j < 6; ++j) Hf(i, j) = in.sym(1.0);
      for (int i = 0; i < 3; ++i)
        for (int j = 0; j < 2; ++j) Jg(i, j) = in.sym(1.0);
      for (int i = 0; i < 2; ++i)
        for (int j = 0; j < 6; ++j) Hg(i, j) = in.sym(1.0);
      put_mat(out, d2_fog(Jf, Hf, Jg, Hg));
      break;
    }
    default: out.tag("?"); break;
  }
}
static constexpr OpDef util_def = {"util.poly", "H", 10, kUtilFn, 3, 6, 0, 0, &util_prep, &util_run};
static Registrar reg_util(&util_def);

}  // namespace ops
