// Helpers for the instrumented operation TUs.  Everything here is a template or inline function
// and is therefore compiled with the instrumentation of the TU that includes it.
#pragma once
#include <limits>
#include <Eigen/Core>
#include <Eigen/Sparse>
#include <optional>
#include <type_traits>
#include <vector>

#include "smooth/bundle.hpp"
#include "smooth/c1.hpp"
#include "smooth/galilei.hpp"
#include "smooth/lie_groups.hpp"
#include "smooth/manifolds.hpp"
#include "smooth/se2.hpp"
#include "smooth/se3.hpp"
#include "smooth/se_k_3.hpp"
#include "smooth/so2.hpp"
#include "smooth/so3.hpp"

#include "h.hpp"

namespace ops {

using h::In;
using h::OpDef;
using h::OpInst;
using h::Out;
using h::Pool;

// ---- serialisation of results ----------------------------------------------------------------
template<class D>
inline void put_mat(Out& out, const Eigen::MatrixBase<D>& m) {
  const typename D::PlainObject p = m;
  out.i64(p.rows());
  out.i64(p.cols());
  if (p.size()) out.put(p.data(), sizeof(typename D::Scalar) * (size_t)p.size());
}
template<class S>
inline void put_sparse(Out& out, const Eigen::SparseMatrix<S>& m) {
  out.i64(m.rows());
  out.i64(m.cols());
  out.i64(m.nonZeros());
  for (int k = 0; k < m.outerSize(); ++k)
    for (typename Eigen::SparseMatrix<S>::InnerIterator it(m, k); it; ++it) {
      out.i64(it.row());
      out.i64(it.col());
      S v = it.value();
      out.put(&v, sizeof v);
    }
}
inline void put_scalar(Out& out, double v) { out.f64(v); }
inline void put_scalar(Out& out, float v) { out.put(&v, sizeof v); }

template<class G>
inline void put_elem(Out& out, const G& g) {
  if constexpr (std::is_arithmetic_v<G>) {
    put_scalar(out, g);
  } else if constexpr (std::is_base_of_v<Eigen::MatrixBase<G>, G>) {
    put_mat(out, g);
  } else {
    put_mat(out, g.coeffs());
  }
}

// ---- deterministic inputs ----------------------------------------------------------------------
// tangent of dimension n whose scale class is selected by `cls`: ordinary, tiny (small-angle
// branches), large (near the cut locus), mixed
template<class S, int N>
inline Eigen::Matrix<S, N, 1> make_tangent(In& in, int n, int cls) {
  Eigen::Matrix<S, N, 1> a(n);
  double scale = 1.0;
  switch (cls & 3) {
    case 0: scale = 1.0; break;
    case 1: scale = 1e-9; break;
    case 2: scale = 3.0; break;
    case 3: scale = 0.05; break;
  }
  for (int i = 0; i < n; ++i) a(i) = static_cast<S>(in.sym(scale));
  return a;
}

template<class G>
inline constexpr int kDynDof = 4;  // dof used for dynamically sized groups (VectorXd)

template<class G>
inline int dof_of() {
  if constexpr (smooth::Dof<G> > 0) return smooth::Dof<G>;
  else return kDynDof<G>;
}

template<class G>
inline smooth::Tangent<G> make_tan(In& in, int cls) {
  return make_tangent<smooth::Scalar<G>, smooth::Dof<G>>(in, dof_of<G>(), cls);
}

template<class G>
inline G make_elem(In& in, int cls) {
  // product of two exponentials: a generic element, not on a one-parameter subgroup of identity
  auto a = make_tan<G>(in, cls);
  auto b = make_tan<G>(in, 0);
  return smooth::composition(smooth::exp<G>(a), smooth::exp<G>(b));
}

// pool factories -----------------------------------------------------------------------------
// pool element `index`: 0..3 generic elements of four scale classes, 4 the exact identity,
// 5 a one-parameter element (exp of an axis-aligned tangent), 6 near the identity, 7 near the cut locus
template<class G>
G* pool_make_elem(In& in, int index) {
  if (index == 4) return new G(smooth::Identity<G>(dof_of<G>()));
  if (index == 5) {
    smooth::Tangent<G> a = smooth::Tangent<G>::Zero(dof_of<G>());
    a(dof_of<G>() - 1) = static_cast<smooth::Scalar<G>>(in.sym(2.0));
    return new G(smooth::exp<G>(a));
  }
  if (index == 6) return new G(smooth::exp<G>(make_tan<G>(in, 1)));  // near the identity, not exactly it
  if (index == 7) {
    auto a = make_tan<G>(in, 0);  // exp of a tangent whose norm is just below pi
    const auto n = a.norm();
    if (n > 0) a *= static_cast<smooth::Scalar<G>>((3.14159265358979323846 - 1e-9) / n);
    return new G(smooth::exp<G>(a));
  }
  if (index == 8 || index == 9) {
    // exp of a tangent in the SUBNORMAL range of the scalar type (and, for 9, one subnormal coordinate
    // next to ordinary ones): results depend on the thread's flush-to-zero / denormals-are-zero mode
    using S = smooth::Scalar<G>;
    const S tiny = std::numeric_limits<S>::denorm_min() * static_cast<S>(1 << 12);
    smooth::Tangent<G> a = index == 8 ? smooth::Tangent<G>(smooth::Tangent<G>::Constant(dof_of<G>(), tiny)) : make_tan<G>(in, 3);
    a(0) = tiny * static_cast<S>(3);
    return new G(smooth::exp<G>(a));
  }
  return new G(make_elem<G>(in, index));
}
template<class G>
void pool_digest_elem(const G& g, Out& out) {
  put_elem(out, g);
}
// pool tangent `index`: 0..3 four scale classes, 4 exactly zero, 5 axis-aligned
template<class G>
smooth::Tangent<G>* pool_make_tan(In& in, int index) {
  if (index == 4) return new smooth::Tangent<G>(smooth::Tangent<G>::Zero(dof_of<G>()));
  if (index == 5) {
    auto* a = new smooth::Tangent<G>(smooth::Tangent<G>::Zero(dof_of<G>()));
    (*a)(0) = static_cast<smooth::Scalar<G>>(in.sym(3.0));
    return a;
  }
  if (index == 2) {
    // norm just below pi: the near-cut-locus branches of log / dr_expinv
    auto* a = new smooth::Tangent<G>(make_tan<G>(in, 0));
    const auto n = a->norm();
    if (n > 0) *a *= static_cast<smooth::Scalar<G>>((3.14159265358979323846 - 1e-7) / n);
    return a;
  }
  if (index == 8 || index == 9) {
    using S = smooth::Scalar<G>;
    const S tiny = std::numeric_limits<S>::denorm_min() * static_cast<S>(1 << 12);
    auto* a = index == 8 ? new smooth::Tangent<G>(smooth::Tangent<G>::Constant(dof_of<G>(), tiny)) : new smooth::Tangent<G>(make_tan<G>(in, 3));
    (*a)(dof_of<G>() - 1) = -tiny * static_cast<S>(5);
    return a;
  }
  return new smooth::Tangent<G>(make_tan<G>(in, index));
}
template<class G>
void pool_digest_tan(const smooth::Tangent<G>& a, Out& out) {
  put_mat(out, a);
}

template<class G>
const G& shared_elem(Pool& pool, const char* kind, int index) {
  return h::pool_get<G, &pool_make_elem<G>, &pool_digest_elem<G>>(pool, kind, index);
}
template<class G>
const smooth::Tangent<G>& shared_tan(Pool& pool, const char* kind, int index) {
  return h::pool_get<smooth::Tangent<G>, &pool_make_tan<G>, &pool_digest_tan<G>>(pool, kind, index);
}

#define OPS_TAG(NAME)                                        \
  struct Tag_##NAME {                                        \
    static constexpr const char* elem = "elem." #NAME;       \
    static constexpr const char* tan = "tan." #NAME;         \
    static constexpr const char* lie = "lie." #NAME;         \
    static constexpr const char* man = "man." #NAME;         \
    static constexpr const char* sparse = "sparse." #NAME;   \
    static constexpr const char* name = #NAME;               \
  }

struct Registrar {
  explicit Registrar(const OpDef* d) { h::reg(d); }
};

}  // namespace ops
