#include "ops_lie.hpp"
REG_LIE(smooth::SO2d, SO2d);
REG_LIE(smooth::SO3d, SO3d);
REG_LIE(smooth::C1d, C1d);
