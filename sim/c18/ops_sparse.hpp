// Family D: sparse derivative routines into task-private matrices copied from the shared patterns.
#pragma once
#include "ops_common.hpp"
#include "smooth/lie_sparse.hpp"

namespace ops {

inline const char* const kSparseFn[] = {"ad_sparse", "dr_exp_sparse", "dr_expinv_sparse", "d2r_exp_sparse",
                                        "d2r_expinv_sparse", "dr_exp_sparse_offset", "patterns"};
constexpr int kSparseNFn = sizeof(kSparseFn) / sizeof(kSparseFn[0]);

template<class G, class Tag>
struct SparseOps {
  using T = smooth::Tangent<G>;
  struct St {
    const T* ta;
  };
  static void prep(OpInst& op, Pool& pool) {
    auto* st = new St;
    st->ta = &shared_tan<G>(pool, Tag::tan, (int)op.p[1]);
    op.st = st;
  }
  static void run(OpInst& op, Out& out) {
    const auto* st = static_cast<const St*>(op.st);
    const T& a = *st->ta;
    using Sp = Eigen::SparseMatrix<smooth::Scalar<G>>;
    switch (op.p[0]) {
      case 0: {
        Sp sp = smooth::ad_sparse_pattern<G>;
        smooth::ad_sparse<G>(sp, a);
        put_sparse(out, sp);
        break;
      }
      case 1: {
        Sp sp = smooth::d_exp_sparse_pattern<G>;
        smooth::dr_exp_sparse<G>(sp, a);
        put_sparse(out, sp);
        break;
      }
      case 2: {
        Sp sp = smooth::d_exp_sparse_pattern<G>;
        smooth::dr_expinv_sparse<G>(sp, a);
        put_sparse(out, sp);
        break;
      }
      case 3: {
        Sp sp = smooth::d2_exp_sparse_pattern<G>;
        smooth::d2r_exp_sparse<G>(sp, a);
        put_sparse(out, sp);
        break;
      }
      case 4: {
        Sp sp = smooth::d2_exp_sparse_pattern<G>;
        smooth::d2r_expinv_sparse<G>(sp, a);
        put_sparse(out, sp);
        break;
      }
      case 5: {
        // host matrix larger than the block, fully populated pattern, block at offset 2
        constexpr int n = smooth::Dof<G> + 3;
        Sp sp = Eigen::Matrix<smooth::Scalar<G>, n, n>::Constant(smooth::Scalar<G>(7)).sparseView();
        sp.makeCompressed();
        smooth::dr_exp_sparse<G>(sp, a, 2);
        smooth::dr_expinv_sparse<G>(sp, a, 1);
        put_sparse(out, sp);
        break;
      }
      case 6:
        put_sparse(out, smooth::ad_sparse_pattern<G>);
        put_sparse(out, smooth::d_exp_sparse_pattern<G>);
        put_sparse(out, smooth::d2_exp_sparse_pattern<G>);
        for (const auto& gen : smooth::generators_sparse<G>) put_sparse(out, gen);
        break;
      default: out.tag("?"); break;
    }
  }
  static constexpr OpDef def = {Tag::sparse, "D", kSparseNFn, kSparseFn, 6, 8, 0, 0, &prep, &run};
};

#define REG_SPARSE(G, NAME) \
  OPS_TAG(NAME);            \
  static ::ops::Registrar reg_sparse_##NAME(&::ops::SparseOps<G, Tag_##NAME>::def)

}  // namespace ops
