#include "ops_spline.hpp"
using namespace smooth;
REG_SPLINE(3, SO3d, Sp3SO3d);
REG_SPLINE(3, SE2d, Sp3SE2d);
REG_SPLINE(5, SE3d, Sp5SE3d);
REG_SPLINE(1, Eigen::Vector2d, Sp1R2d);
