#include "ops_fit.hpp"
using namespace smooth;
REG_FIT(SE2d, SE2d);
static ::ops::Registrar reg_curve(&::ops::CurveOps::def);
