#include "ops_sparse.hpp"
using namespace smooth;
using BunS = Bundle<SE2d, Eigen::Vector3d, SO3d>;
REG_SPARSE(SO3d, SO3d);
REG_SPARSE(SE2d, SE2d);
REG_SPARSE(SE3d, SE3d);
REG_SPARSE(BunS, BunS);
