// see ops_f3.cpp
#define SMOOTH_HAS_FMT 1
#define FMT_HEADER_ONLY 1
#include "ops_optim.hpp"
using namespace smooth;
namespace {
struct Tag_OptimSE2dFmt {
  static constexpr const char* elem = "elem.SE2d";
  static constexpr const char* lie = "minimize.SE2d+fmt";
};
}  // namespace
static ::ops::Registrar reg_optim_SE2d_fmt(&::ops::OptimOps<SE2d, Tag_OptimSE2dFmt>::def);
