// Family E, dynamically sized arguments and re-entrant callables: diff::dr on Eigen::VectorXd and
// std::vector<G> (run-time degrees of freedom), and user functions that call back into the library.
#include <vector>

#include "ops_common.hpp"
#include "smooth/diff.hpp"
#include "smooth/manifolds/vector.hpp"
#include "smooth/spline/bspline.hpp"

namespace ops {

struct DynData {
  Eigen::VectorXd x;             // shared const argument
  Eigen::MatrixXd A;             // shared const data of the function
  std::vector<smooth::SO3d> gs;  // shared const manifold-vector argument
  smooth::BSpline<3, smooth::SO3d> bs;
};
static DynData* make_dyn(In& in, int index) {
  auto* d = new DynData;
  const int n = 2 + 3 * index;  // 2, 5, 8, 11 degrees of freedom
  d->x = make_tangent<double, -1>(in, n, 0);
  d->A.resize(n, n);
  for (int i = 0; i < n; ++i)
    for (int j = 0; j < n; ++j) d->A(i, j) = in.sym(1.0);
  for (int i = 0; i < 1 + index; ++i) d->gs.push_back(make_elem<smooth::SO3d>(in, i));
  std::vector<smooth::SO3d> cp;
  smooth::SO3d g = make_elem<smooth::SO3d>(in, 0);
  for (int i = 0; i < 7; ++i) {
    cp.push_back(g);
    g = smooth::rplus(g, make_tan<smooth::SO3d>(in, 3));
  }
  d->bs = smooth::BSpline<3, smooth::SO3d>(0.0, 1.0, cp);
  return d;
}
static void digest_dyn(const DynData& d, Out& out) {
  put_mat(out, d.x);
  put_mat(out, d.A);
  for (const auto& g : d.gs) put_elem(out, g);
  for (const auto& g : d.bs.ctrl_pts()) put_elem(out, g);
}

static const char* const kDynFn[] = {"dr1_num_vectorxd", "dr1_num_stdvector", "dr2_num_vectorxd", "dr1_nested", "dr1_spline_residual",
                                     "dr1_num_two_dynamic", "dr2_num_two_dynamic"};

struct DynSt {
  const DynData* a;
  const DynData* b;
};
static void dyn_prep(OpInst& op, Pool& pool) {
  auto* st = new DynSt;
  st->a = &h::pool_get<DynData, &make_dyn, &digest_dyn>(pool, "diffdyn.data", (int)op.p[1]);
  st->b = &h::pool_get<DynData, &make_dyn, &digest_dyn>(pool, "diffdyn.data", (int)op.p[2]);
  op.st = st;
}
static void dyn_run(OpInst& op, Out& out) {
  using smooth::diff::Type;
  const auto* st = static_cast<const DynSt*>(op.st);
  const DynData& a = *st->a;
  const DynData& b = *st->b;
  OpInst* opp = &op;
  switch (op.p[0]) {
    case 0: {
      const auto [f, J] = smooth::diff::dr<1, Type::Numerical>(
        [&a, opp](const Eigen::VectorXd& v) -> Eigen::VectorXd { h::cb_tick(*opp); return a.A * v + v.cwiseProduct(v); }, smooth::wrt(a.x));
      put_mat(out, f);
      put_mat(out, J);
      break;
    }
    case 1: {
      const auto [f, J] = smooth::diff::dr<1, Type::Numerical>(
        [opp](const std::vector<smooth::SO3d>& v) -> Eigen::VectorXd {
          h::cb_tick(*opp);
          Eigen::VectorXd r(3 * (Eigen::Index)v.size());
          for (std::size_t i = 0; i < v.size(); ++i) r.segment<3>(3 * (Eigen::Index)i) = v[i].log();
          return r;
        },
        smooth::wrt(a.gs));
      put_mat(out, f);
      put_mat(out, J);
      break;
    }
    case 2: {
      const auto [f, J, H] = smooth::diff::dr<2, Type::Numerical>(
        [&a, opp](const Eigen::VectorXd& v) -> double { h::cb_tick(*opp); return 0.5 * v.dot(a.A * v); }, smooth::wrt(a.x));
      out.f64(f);
      put_mat(out, J);
      put_mat(out, H);
      break;
    }
    case 3: {
      // the function being differentiated differentiates something itself (re-entrancy)
      const auto [f, J] = smooth::diff::dr<1, Type::Numerical>(
        [&a, &b, opp](const Eigen::VectorXd& v) -> Eigen::VectorXd {
          h::cb_tick(*opp);
          const auto [fi, Ji] = smooth::diff::dr<1, Type::Numerical>(
            [&b](const Eigen::VectorXd& w) -> Eigen::VectorXd { return b.A * w; }, smooth::wrt(b.x));
          return a.A * v + Eigen::VectorXd::Constant(v.size(), Ji.sum() + fi.sum());
        },
        smooth::wrt(a.x));
      put_mat(out, f);
      put_mat(out, J);
      break;
    }
    case 4: {
      // residual that evaluates a shared BSpline (first-use static inside a user callable)
      const Eigen::Matrix<double, 1, 1> t0{0.3 + 0.1 * (double)(op.p[3] & 3)};
      const smooth::SO3d target = a.gs.front();
      const auto [f, J] = smooth::diff::dr<1, Type::Numerical>(
        [&a, &target, opp](const Eigen::Matrix<double, 1, 1>& t) -> Eigen::Vector3d {
          h::cb_tick(*opp);
          return smooth::rminus(a.bs(t(0)), target);
        },
        smooth::wrt(t0));
      put_mat(out, f);
      put_mat(out, J);
      break;
    }
    case 5: {
      const auto [f, J] = smooth::diff::dr<1, Type::Numerical>(
        [&a, opp](const Eigen::VectorXd& v, const std::vector<smooth::SO3d>& gs) -> Eigen::VectorXd {
          h::cb_tick(*opp);
          Eigen::VectorXd r = a.A * v;
          for (std::size_t i = 0; i < gs.size(); ++i) r(0) += gs[i].log().squaredNorm();
          return r;
        },
        smooth::wrt(a.x, a.gs));
      put_mat(out, f);
      put_mat(out, J);
      break;
    }
    case 6: {  // second order in two dynamically sized arguments
      const auto [f, J, H] = smooth::diff::dr<2, Type::Numerical>(
        [&a, opp](const Eigen::VectorXd& v, const std::vector<smooth::SO3d>& gs) -> double {
          h::cb_tick(*opp);
          double r = 0.5 * v.dot(a.A * v);
          for (std::size_t i = 0; i < gs.size(); ++i) r += gs[i].log().squaredNorm() * v(0);
          return r;
        },
        smooth::wrt(a.x, a.gs));
      out.f64(f);
      put_mat(out, J);
      put_mat(out, H);
      break;
    }
    default: out.tag("?"); break;
  }
}
static constexpr OpDef dyn_def = {"diffdyn.RX", "E", 7, kDynFn, 4, 10, 0, 1, &dyn_prep, &dyn_run};
static Registrar reg_dyn(&dyn_def);

}  // namespace ops
