// c18sim — workload generation, reference runs, simulated concurrent runs and oracles for C18.
// Uninstrumented.  The process that executes main() (the "worker") never runs library code: every
// reference and every simulated run happens in a child forked from it, so that function-local
// statics of the library are cold in each run unless the plan asks for a warm-up.
#include <errno.h>
#include <fcntl.h>
#include <signal.h>
#include <sys/mman.h>
#include <sys/personality.h>
#include <sys/wait.h>
#include <time.h>
#include <unistd.h>

#include <cinttypes>
#include <cstdio>
#include <cstdlib>
#include <cstring>
#include <exception>
#include <string>
#include <vector>

#include "../rt/sim.h"
#include "h.hpp"

using h::mix64;
using h::OpDef;
using h::OpInst;
using h::Out;

// ------------------------------------------------------------------------------------------------
// plan
// ------------------------------------------------------------------------------------------------

constexpr int kMaxOps = 24;

struct PlanOp {
  std::string name;
  int64_t p[4] = {0, 0, 0, 0};
  uint64_t salt = 0;
  int throw_at = -1;
  int rep = 1;  // the call is made `rep` times in a row inside one operation (call volume)
};
struct SchedSpec {
  int strategy = sim::S_SERIAL;
  uint64_t seed = 0;
  double p = 0;
  int depth = 1;
  std::vector<sim::Fault> faults;
  std::vector<sim::Switch> sw;  // explicit schedule
};
struct Plan {
  uint64_t seed = 0;
  uint64_t pool_seed = 0;
  int warm = 0;
  std::vector<std::vector<PlanOp>> tasks;
  SchedSpec sched;
};

static const char* kStratName[] = {"serial", "opgrain", "sync", "walk", "pct", "explicit", "lockstep"};
static const char* kFaultName[] = {"preempt", "stall", "late_start", "clock_jump"};

static std::string plan_to_text(const Plan& pl) {
  std::string s;
  char b[512];
  snprintf(b, sizeof b, "plan 1\nprop C18\nseed %" PRIu64 "\npool %" PRIu64 "\nwarm %d\nntasks %zu\n", pl.seed,
           pl.pool_seed, pl.warm, pl.tasks.size());
  s += b;
  for (size_t t = 0; t < pl.tasks.size(); ++t) {
    snprintf(b, sizeof b, "task %zu %zu\n", t, pl.tasks[t].size());
    s += b;
    for (const auto& op : pl.tasks[t]) {
      snprintf(b, sizeof b, "op %s %" PRId64 " %" PRId64 " %" PRId64 " %" PRId64 " %" PRIu64 " %d %d\n", op.name.c_str(),
               op.p[0], op.p[1], op.p[2], op.p[3], op.salt, op.throw_at, op.rep);
      s += b;
    }
  }
  snprintf(b, sizeof b, "sched %s %" PRIu64 " %.17g %d\n", kStratName[pl.sched.strategy], pl.sched.seed, pl.sched.p,
           pl.sched.depth);
  s += b;
  for (const auto& f : pl.sched.faults) {
    snprintf(b, sizeof b, "fault %s %d %d %" PRIu64 " %" PRIu64 "\n", kFaultName[f.kind], f.task, f.op, f.off, f.arg);
    s += b;
  }
  for (const auto& w : pl.sched.sw) {
    snprintf(b, sizeof b, "sw %d %d %" PRIu64 " %d %d\n", w.task, w.op, w.off, w.to, w.forced);
    s += b;
  }
  s += "end\n";
  return s;
}

static bool plan_from_text(const char* text, Plan& pl, std::string& err) {
  pl = Plan();
  const char* p = text;
  int cur_task = -1;
  bool ended = false;
  while (*p) {
    const char* e = strchr(p, '\n');
    std::string line = e ? std::string(p, e - p) : std::string(p);
    p = e ? e + 1 : p + line.size();
    if (line.empty() || line[0] == '#') continue;
    char kw[32] = {0};
    sscanf(line.c_str(), "%31s", kw);
    const char* rest = line.c_str() + strlen(kw);
    if (!strcmp(kw, "plan") || !strcmp(kw, "prop")) continue;
    if (!strcmp(kw, "seed")) { sscanf(rest, "%" SCNu64, &pl.seed); continue; }
    if (!strcmp(kw, "pool")) { sscanf(rest, "%" SCNu64, &pl.pool_seed); continue; }
    if (!strcmp(kw, "warm")) { sscanf(rest, "%d", &pl.warm); continue; }
    if (!strcmp(kw, "ntasks")) {
      int n = 0;
      sscanf(rest, "%d", &n);
      if (n < 1 || n > sim::kMaxCallerTasks) { err = "bad ntasks"; return false; }
      pl.tasks.resize((size_t)n);
      continue;
    }
    if (!strcmp(kw, "task")) {
      sscanf(rest, "%d", &cur_task);
      if (cur_task < 0 || cur_task >= (int)pl.tasks.size()) { err = "bad task index"; return false; }
      continue;
    }
    if (!strcmp(kw, "op")) {
      if (cur_task < 0) { err = "op before task"; return false; }
      PlanOp op;
      char name[128];
      int nf = sscanf(rest, "%127s %" SCNd64 " %" SCNd64 " %" SCNd64 " %" SCNd64 " %" SCNu64 " %d %d", name, &op.p[0], &op.p[1],
                      &op.p[2], &op.p[3], &op.salt, &op.throw_at, &op.rep);
      if (nf < 7) { err = "bad op line: " + line; return false; }
      if (nf < 8 || op.rep < 1) op.rep = 1;
      if (op.rep > 4096) op.rep = 4096;
      op.name = name;
      if (pl.tasks[(size_t)cur_task].size() >= (size_t)kMaxOps) { err = "too many ops"; return false; }
      pl.tasks[(size_t)cur_task].push_back(op);
      continue;
    }
    if (!strcmp(kw, "sched")) {
      char sn[32];
      if (sscanf(rest, "%31s %" SCNu64 " %lf %d", sn, &pl.sched.seed, &pl.sched.p, &pl.sched.depth) != 4) { err = "bad sched"; return false; }
      pl.sched.strategy = -1;
      for (int i = 0; i < 7; ++i)
        if (!strcmp(sn, kStratName[i])) pl.sched.strategy = i;
      if (pl.sched.strategy < 0) { err = "bad strategy"; return false; }
      continue;
    }
    if (!strcmp(kw, "fault")) {
      char fn[32];
      sim::Fault f{};
      if (sscanf(rest, "%31s %d %d %" SCNu64 " %" SCNu64, fn, &f.task, &f.op, &f.off, &f.arg) != 5) { err = "bad fault"; return false; }
      f.kind = -1;
      for (int i = 0; i < sim::F_NKINDS; ++i)
        if (!strcmp(fn, kFaultName[i])) f.kind = i;
      if (f.kind < 0) { err = "bad fault kind"; return false; }
      pl.sched.faults.push_back(f);
      continue;
    }
    if (!strcmp(kw, "sw")) {
      sim::Switch w{};
      if (sscanf(rest, "%d %d %" SCNu64 " %d %d", &w.task, &w.op, &w.off, &w.to, &w.forced) != 5) { err = "bad sw"; return false; }
      pl.sched.sw.push_back(w);
      continue;
    }
    if (!strcmp(kw, "end")) { ended = true; break; }
    err = "unknown line: " + line;
    return false;
  }
  if (!ended) { err = "missing end"; return false; }
  if (pl.tasks.empty()) { err = "no tasks"; return false; }
  for (auto& t : pl.tasks)
    for (auto& op : t) {
      const OpDef* d = h::find_def(op.name.c_str());
      if (!d) { err = "unknown op " + op.name; return false; }
      if (op.p[0] < 0 || op.p[0] >= d->nfn) { err = "fn out of range for " + op.name; return false; }
      if (op.p[1] < 0 || op.p[1] >= d->nobj || op.p[2] < 0 || op.p[2] >= d->nobj) { err = "obj out of range for " + op.name; return false; }
    }
  return true;
}

// ------------------------------------------------------------------------------------------------
// shared memory between worker and child
// ------------------------------------------------------------------------------------------------

constexpr size_t kShmSwitches = 1u << 16;

struct Shm {
  volatile int stage;        // 0 start, 1 prepared, 2 warmed, 3 sim running, 4 sim done, 5 complete
  volatile int crash_sig;
  volatile int terminated;
  int ntasks;
  char terminate_what[96];  // what() of the exception that reached std::terminate
  uint64_t prep_threads;  // threads the code under test created during preparation / warm-up
  int nops[sim::kMaxCallerTasks];
  Out outs[sim::kMaxCallerTasks][kMaxOps];
  uint64_t op_events[sim::kMaxCallerTasks][kMaxOps];
  int threw[sim::kMaxCallerTasks][kMaxOps];
  uint64_t pool_digest_before, pool_digest_after;
  uint64_t pool_objects;
  sim::Result res;
  volatile size_t n_sw;
  int sw_truncated;
  sim::Switch sw[kShmSwitches];
  sim::Fault faults[64];
  size_t n_faults;
  char race_region_kind[sim::kMaxRaces][48];
  int race_region_index[sim::kMaxRaces];
};

static Shm* g_shm;

static void crash_handler(int sig) {
  if (g_shm) g_shm->crash_sig = sig;
  _exit(70 + (sig & 31));
}
// bin/coverage builds the operation TUs with gcov counters; a child must write them out itself
// because it leaves through _exit()
#ifdef C18SIM_COVERAGE
extern "C" void __gcov_dump(void);
static inline void child_exit0() {
  __gcov_dump();
  _exit(0);
}
#else
static inline void child_exit0() { _exit(0); }
#endif

static void terminate_handler() {
  if (g_shm) g_shm->terminated = 1;
  if (std::exception_ptr ep = std::current_exception()) {
    try {
      std::rethrow_exception(ep);
    } catch (const std::exception& e) {
      if (g_shm) snprintf(g_shm->terminate_what, sizeof g_shm->terminate_what, "%s", e.what());
    } catch (...) {
      if (g_shm) snprintf(g_shm->terminate_what, sizeof g_shm->terminate_what, "(not a std::exception)");
    }
  }
  _exit(69);
}

// ------------------------------------------------------------------------------------------------
// child side
// ------------------------------------------------------------------------------------------------

struct RunCtx {
  std::vector<std::vector<OpInst>> ops;  // [task][i]
  int solo_task = -1;                     // reference mode: sim task 0 runs plan task solo_task
};

static void run_op_guarded(OpInst& op, Out& out, int* threw) {
  op.cb_count = 0;
  try {
    op.def->run(op, out);
  } catch (const h::HarnessThrow& e) {
    out.tag("<harness-throw>");
    out.i64(e.at);
    if (threw) *threw = 1;
  }
  // the calling thread's floating-point environment is part of what a call leaves behind: rounding
  // mode, flush-to-zero / denormals-are-zero and exception masks (sticky status flags excluded) must
  // be what a sequential run leaves - a thread whose mode was changed computes differently afterwards
  out.i64((int64_t)(__builtin_ia32_stmxcsr() & 0xffc0u));
  unsigned short x87cw = 0;
  __asm__ volatile("fnstcw %0" : "=m"(x87cw));
  out.i64((int64_t)x87cw);
}

static void task_body(int task, void* arg) {
  RunCtx* rc = static_cast<RunCtx*>(arg);
  int pt = rc->solo_task >= 0 ? rc->solo_task : task;
  auto& list = rc->ops[(size_t)pt];
  for (size_t i = 0; i < list.size(); ++i) {
    Out& out = g_shm->outs[pt][i];
    out.reset();
    uint64_t t0 = sim::now();
    sim::op_begin((int)i);
    for (int k = 0; k < list[i].rep; ++k) {
      list[i].iter = k;
      run_op_guarded(list[i], out, &g_shm->threw[pt][i]);
    }
    sim::op_end();
    g_shm->op_events[pt][i] = sim::now() - t0;
  }
}

static void child_common_setup(const Plan& pl, RunCtx& rc) {
  // whatever the code under test prints (minimize's verbose mode, debug output of a change under
  // test) must not end up in the worker's result stream
  {
    int devnull = open("/dev/null", O_WRONLY);
    if (devnull >= 0) {
      dup2(devnull, 1);
      dup2(devnull, 2);
      close(devnull);
    }
    if (const char* dbg = getenv("C18SIM_CHILD_STDERR")) {  // debugging aid: keep what the children print
      int fd = open(dbg, O_WRONLY | O_CREAT | O_APPEND, 0644);
      if (fd >= 0) {
        dup2(fd, 2);
        close(fd);
      }
    }
  }
  signal(SIGSEGV, crash_handler);
  signal(SIGBUS, crash_handler);
  signal(SIGFPE, crash_handler);
  signal(SIGILL, crash_handler);
  signal(SIGABRT, crash_handler);
  std::set_terminate(terminate_handler);
  h::the_pool().seed = pl.pool_seed;
  rc.ops.resize(pl.tasks.size());
  g_shm->ntasks = (int)pl.tasks.size();
  for (size_t t = 0; t < pl.tasks.size(); ++t) {
    g_shm->nops[t] = (int)pl.tasks[t].size();
    for (const auto& po : pl.tasks[t]) {
      OpInst oi{};
      oi.def = h::find_def(po.name.c_str());
      for (int k = 0; k < 4; ++k) oi.p[k] = po.p[k];
      oi.salt = po.salt;
      oi.throw_at = po.throw_at;
      oi.rep = po.rep;
      oi.st = nullptr;
      oi.cb_count = 0;
      rc.ops[t].push_back(oi);
    }
  }
}

// Preparation (building the pool objects, warm-up) also runs on a simulator thread, as a one-task
// serial run: code under test that creates threads of its own (a parallelised algorithm, a worker
// pool) then does so under the scheduler here too, so that the process reaches the simulated
// interval in the same state in every execution of the plan.
struct PrepArg {
  const Plan* pl;
  RunCtx* rc;
  int only_task;
};
static sim::Result g_prep_res;

static void prep_body(int, void* a) {
  auto* pa = static_cast<PrepArg*>(a);
  RunCtx& rc = *pa->rc;
  h::the_pool().preparing = true;
  for (size_t t = 0; t < rc.ops.size(); ++t) {
    if (pa->only_task >= 0 && (int)t != pa->only_task) continue;
    for (auto& oi : rc.ops[t]) oi.def->prep(oi, h::the_pool());
  }
  h::the_pool().preparing = false;
  g_shm->stage = 1;
  if (pa->pl->warm) {
    // warm-up: every operation of the plan once, outside the simulated interval
    for (size_t t = 0; t < rc.ops.size(); ++t) {
      if (pa->only_task >= 0 && (int)t != pa->only_task) continue;
      for (auto& oi : rc.ops[t]) {
        Out dummy;
        dummy.reset();
        run_op_guarded(oi, dummy, nullptr);
      }
    }
  }
}

static void child_prepare(const Plan& pl, RunCtx& rc, int only_task) {
  PrepArg pa{&pl, &rc, only_task};
  sim::Config cfg;
  cfg.ntasks = 1;
  cfg.strategy = sim::S_SERIAL;
  cfg.track_memory = false;
  cfg.fair_after = 50000000ull;
  cfg.max_events = 2000000000ull;
  cfg.stack_bytes = 16u << 20;
  sim::run(cfg, prep_body, &pa, g_prep_res);
  if (g_prep_res.unsupported || g_prep_res.deadlock || g_prep_res.budget_exhausted) {
    g_shm->res.unsupported = 1;
    snprintf(g_shm->res.unsupported_what, sizeof g_shm->res.unsupported_what, "preparation: %s",
             g_prep_res.unsupported ? g_prep_res.unsupported_what : g_prep_res.deadlock ? "deadlock" : "event budget");
    _exit(0);
  }
  g_shm->prep_threads = g_prep_res.dynamic_threads;
  g_shm->stage = 2;
}

// reference: plan task `t` alone, in this pristine process, on a simulator thread
[[noreturn]] static void child_reference(const Plan& pl, int t) {
  RunCtx rc;
  child_common_setup(pl, rc);
  child_prepare(pl, rc, t);
  rc.solo_task = t;
  sim::Config cfg;
  cfg.ntasks = 1;
  cfg.strategy = sim::S_SERIAL;
  cfg.max_events = 400000000ull;
  cfg.adopt_threads = true;  // a worker pool the preparation started keeps serving
  g_shm->stage = 3;
  sim::run(cfg, task_body, &rc, g_shm->res);
  g_shm->res.switch_log = nullptr;
  g_shm->stage = 5;
  child_exit0();
  __builtin_unreachable();
}

[[noreturn]] static void child_run(const Plan& pl, uint64_t serial_events) {
  RunCtx rc;
  child_common_setup(pl, rc);
  child_prepare(pl, rc, -1);
  h::Pool& pool = h::the_pool();
  Out d0;
  d0.reset();
  pool.digest_all(d0);
  g_shm->pool_digest_before = d0.hash;
  g_shm->pool_objects = pool.size();
  pool.register_regions();

  sim::Config cfg;
  cfg.ntasks = (int)pl.tasks.size();
  cfg.strategy = pl.sched.strategy;
  cfg.seed = pl.sched.seed;
  cfg.p = pl.sched.p;
  cfg.pct_depth = pl.sched.depth;
  cfg.pct_k = serial_events ? serial_events : 1000;
  cfg.fair_after = 4 * serial_events + 200000;
  cfg.max_events = 20 * serial_events + 1000000;
  cfg.explicit_sw = pl.sched.sw.data();
  cfg.n_explicit = pl.sched.sw.size();
  size_t nf = pl.sched.faults.size() < 64 ? pl.sched.faults.size() : 64;
  for (size_t i = 0; i < nf; ++i) g_shm->faults[i] = pl.sched.faults[i];
  g_shm->n_faults = nf;
  cfg.faults = g_shm->faults;
  cfg.n_faults = nf;
  cfg.sw_buf = g_shm->sw;  // in shared memory: the schedule survives a crash of this process
  cfg.sw_cap = kShmSwitches;
  cfg.sw_count = &g_shm->n_sw;
  cfg.adopt_threads = true;  // a worker pool the preparation started keeps serving

  g_shm->stage = 3;
  sim::run(cfg, task_body, &rc, g_shm->res);
  g_shm->stage = 4;
  sim::Result& res = g_shm->res;
  g_shm->sw_truncated = res.switches + 1 > kShmSwitches;
  res.switch_log = nullptr;
  for (size_t i = 0; i < res.n_races; ++i) {
    const char* k = res.races[i].region_id >= 0 ? pool.kind_of_region(res.races[i].region_id) : "";
    strncpy(g_shm->race_region_kind[i], k, 47);
    g_shm->race_region_index[i] = pool.index_of_region(res.races[i].region_id);
  }
  if (!res.deadlock && !res.budget_exhausted && !res.unsupported) {
    Out d1;
    d1.reset();
    pool.digest_all(d1);
    g_shm->pool_digest_after = d1.hash;
  }
  g_shm->stage = 5;
  child_exit0();
  __builtin_unreachable();
}

// ------------------------------------------------------------------------------------------------
// worker side
// ------------------------------------------------------------------------------------------------

struct Refs {
  bool ok = false;
  std::string why;
  int nops[sim::kMaxCallerTasks] = {};
  Out outs[sim::kMaxCallerTasks][kMaxOps];
  uint64_t op_events[sim::kMaxCallerTasks][kMaxOps] = {};
  int threw[sim::kMaxCallerTasks][kMaxOps] = {};
  uint64_t task_events[sim::kMaxCallerTasks] = {};
  uint64_t total_events = 0;
  uint64_t guard_inits = 0;
  uint64_t races = 0;
  uint64_t lock_events = 0;  // mutex / rwlock / condvar / once events seen in the solo runs
  int internal_task = -1;    // a task whose SOLO run already raced / deadlocked (the operation spawns threads itself)
};

struct ChildStatus {
  bool exited_ok = false;
  int exit_code = 0;
  int sig = 0;
  bool timed_out = false;
};

static double now_s() {
  struct timespec ts;
  clock_gettime(CLOCK_MONOTONIC, &ts);
  return (double)ts.tv_sec + 1e-9 * (double)ts.tv_nsec;
}

static ChildStatus wait_child(pid_t pid, double timeout_s) {
  ChildStatus cs;
  double t0 = now_s();
  for (;;) {
    int st = 0;
    pid_t r = waitpid(pid, &st, WNOHANG);
    if (r == pid) {
      if (WIFEXITED(st)) {
        cs.exit_code = WEXITSTATUS(st);
        cs.exited_ok = cs.exit_code == 0;
      } else if (WIFSIGNALED(st)) {
        cs.sig = WTERMSIG(st);
      }
      return cs;
    }
    if (r < 0 && errno != EINTR) return cs;
    if (now_s() - t0 > timeout_s) {
      kill(pid, SIGKILL);
      waitpid(pid, &st, 0);
      cs.timed_out = true;
      return cs;
    }
    struct timespec ts = {0, 200000};
    nanosleep(&ts, nullptr);
  }
}

static void shm_reset() { memset((void*)g_shm, 0, offsetof(Shm, sw)); g_shm->n_sw = 0; g_shm->n_faults = 0; g_shm->res.cur_task = -1; g_shm->res.cur_op = -1; }

static void compute_refs(const Plan& pl, Refs& refs) {
  refs = Refs();
  refs.ok = true;
  for (size_t t = 0; t < pl.tasks.size(); ++t) {
    shm_reset();
    fflush(stdout);
    pid_t pid = fork();
    if (pid < 0) { refs.ok = false; refs.why = "fork failed"; return; }
    if (pid == 0) child_reference(pl, (int)t);
    ChildStatus cs = wait_child(pid, 60.0);
    if (!cs.exited_ok || g_shm->stage != 5) {
      refs.ok = false;
      char b[160];
      snprintf(b, sizeof b, "reference of task %zu failed: exit=%d sig=%d crash_sig=%d terminated=%d timeout=%d stage=%d", t,
               cs.exit_code, cs.sig, g_shm->crash_sig, g_shm->terminated, (int)cs.timed_out, g_shm->stage);
      refs.why = b;
      return;
    }
    refs.nops[t] = g_shm->nops[t];
    for (int i = 0; i < g_shm->nops[t]; ++i) {
      refs.outs[t][i] = g_shm->outs[t][i];
      refs.op_events[t][i] = g_shm->op_events[t][i];
      refs.threw[t][i] = g_shm->threw[t][i];
    }
    refs.task_events[t] = g_shm->res.events;
    refs.total_events += g_shm->res.events;
    refs.guard_inits += g_shm->res.guard_init_in_sim;
    refs.lock_events += g_shm->res.ev_by_kind[sim::EV_MUTEX] + g_shm->res.ev_by_kind[sim::EV_ONCE];
    refs.races += g_shm->res.races_total;
    if ((g_shm->res.races_total || g_shm->res.deadlock) && refs.internal_task < 0) refs.internal_task = (int)t;
  }
}

enum Cls : unsigned {
  C_RACE = 1,
  C_DIVERGE = 2,
  C_INPUT = 4,
  C_DEADLOCK = 8,
  C_PROGRESS = 16,
  C_CRASH = 32,
  C_MACHINERY = 64,  // unsupported primitive, child failure without explanation
  C_BUDGET = 128     // not a violation
};

struct RunOutcome {
  unsigned cls = 0;
  std::string detail;      // JSON fragment with class-specific details
  ChildStatus cs;
  int diverge_task = -1, diverge_op = -1;
  int n_diverge = 0;
};

static std::string hex64(uint64_t v) {
  char b[24];
  snprintf(b, sizeof b, "%016" PRIx64, v);
  return b;
}

static std::string json_escape(const std::string& s) {
  std::string o;
  for (char c : s) {
    if (c == '"' || c == '\\') { o += '\\'; o += c; }
    else if (c == '\n') o += "\\n";
    else if ((unsigned char)c < 32) o += ' ';
    else o += c;
  }
  return o;
}

static RunOutcome execute_run(const Plan& pl, const Refs& refs) {
  RunOutcome ro;
  shm_reset();
  fflush(stdout);
  pid_t pid = fork();
  if (pid < 0) { ro.cls = C_MACHINERY; ro.detail = "\"why\":\"fork failed\""; return ro; }
  if (pid == 0) child_run(pl, refs.total_events);
  ro.cs = wait_child(pid, 40.0);
  const sim::Result& res = g_shm->res;
  char b[512];
  std::string d;
  if (ro.cs.timed_out) {
    ro.cls |= C_BUDGET;
    d += "\"wall_timeout\":1,";
  } else if (g_shm->crash_sig || ro.cs.sig || g_shm->terminated || (ro.cs.exit_code != 0 && g_shm->stage < 5)) {
    if (g_shm->stage >= 3 && g_shm->stage < 5) {
      // inside the simulated interval: the references ran the same operations without crashing
      ro.cls |= C_CRASH;
    } else {
      ro.cls |= C_MACHINERY;
    }
    {
      int ct = res.cur_task, co = res.cur_op;
      std::string opn = "?";
      if (ct >= 0 && ct < (int)pl.tasks.size() && co >= 0 && co < (int)pl.tasks[ct].size()) {
        const PlanOp& po = pl.tasks[ct][co];
        const OpDef* df = h::find_def(po.name.c_str());
        opn = po.name + ":" + (df ? df->fn_names[po.p[0]] : "?");
      }
      snprintf(b, sizeof b, "\"crash\":{\"sig\":%d,\"wsig\":%d,\"terminated\":%d,\"exit\":%d,\"stage\":%d,\"task\":%d,\"op\":\"%s\",\"what\":\"%s\"},",
               g_shm->crash_sig, ro.cs.sig, g_shm->terminated, ro.cs.exit_code, g_shm->stage, ct, opn.c_str(),
               json_escape(g_shm->terminate_what).c_str());
    }
    d += b;
  }
  if (res.unsupported && strstr(res.unsupported_what, "thread limit")) {
    // more simultaneously live threads than the simulator has slots for: set aside, like a wall-clock timeout
    ro.cls |= C_BUDGET;
    d += "\"thread_limit\":1,";
  } else if (res.unsupported) {
    ro.cls |= C_MACHINERY;
    d += std::string("\"unsupported\":\"") + res.unsupported_what + "\",";
  }
  if (res.deadlock || res.budget_exhausted) {
    if (res.deadlock) ro.cls |= C_DEADLOCK;
    d += "\"stuck\":[";
    static const char* sn[] = {"new", "runnable", "blocked", "stalled", "done"};
    for (size_t t = 0; t < pl.tasks.size(); ++t) {
      std::string opn = "-";
      int co = res.end_op[t];
      if (co >= 0 && co < (int)pl.tasks[t].size()) {
        const PlanOp& po = pl.tasks[t][co];
        const OpDef* df = h::find_def(po.name.c_str());
        opn = po.name + ":" + (df ? df->fn_names[po.p[0]] : "?");
      }
      snprintf(b, sizeof b, "%s{\"task\":%zu,\"state\":\"%s\",\"op\":\"%s\",\"blocked_on\":%" PRIu64 ",\"pc\":%u}", t ? "," : "", t,
               sn[res.end_state[t] >= 0 && res.end_state[t] < 5 ? res.end_state[t] : 0], opn.c_str(), (uint64_t)res.end_blocked_on[t],
               res.end_blocked_pc[t]);
      d += b;
    }
    d += "],";
  }
  if (res.budget_exhausted) {
    if (res.fair_mode_entered) ro.cls |= C_PROGRESS;
    else ro.cls |= C_BUDGET;
  }
  if (res.races_total) {
    ro.cls |= C_RACE;
    d += "\"races\":[";
    for (size_t i = 0; i < res.n_races; ++i) {
      const sim::Race& r = res.races[i];
      const char* opc = "?";
      const char* opp = "?";
      std::string opcs, opps;
      if (r.task_cur >= 0 && r.task_cur < (int)pl.tasks.size() && r.op_cur >= 0 && r.op_cur < (int)pl.tasks[r.task_cur].size()) {
        const PlanOp& po = pl.tasks[r.task_cur][r.op_cur];
        const OpDef* df = h::find_def(po.name.c_str());
        opcs = po.name + ":" + (df ? df->fn_names[po.p[0]] : "?");
        opc = opcs.c_str();
      }
      if (r.task_prev >= 0 && r.task_prev < (int)pl.tasks.size() && r.op_prev >= 0 && r.op_prev < (int)pl.tasks[r.task_prev].size()) {
        const PlanOp& po = pl.tasks[r.task_prev][r.op_prev];
        const OpDef* df = h::find_def(po.name.c_str());
        opps = po.name + ":" + (df ? df->fn_names[po.p[0]] : "?");
        opp = opps.c_str();
      }
      static const char* cn[] = {"pool", "static", "heap", "other_task_stack", "other"};
      snprintf(b, sizeof b,
               "%s{\"addr\":%" PRIu64 ",\"pc_cur\":%u,\"pc_prev\":%u,\"w_cur\":%d,\"w_prev\":%d,\"task_cur\":%d,\"task_prev\":%d,\"op_cur\":\"%s\","
               "\"op_prev\":\"%s\",\"size\":%u,\"class\":\"%s\",\"region\":\"%s[%d]+%" PRIu64 "\",\"count\":%" PRIu64 "}",
               i ? "," : "", (uint64_t)r.addr, r.pc_cur, r.pc_prev, r.w_cur, r.w_prev, r.task_cur, r.task_prev, opc, opp, r.size,
               cn[r.addr_class < 5 ? r.addr_class : 4], g_shm->race_region_kind[i], g_shm->race_region_index[i], r.region_off,
               r.count);
      d += b;
    }
    d += "],";
  }
  bool completed = g_shm->stage == 5 && !res.deadlock && !res.budget_exhausted && !res.unsupported && !ro.cs.timed_out;
  if (completed) {
    if (g_shm->pool_digest_before != g_shm->pool_digest_after) ro.cls |= C_INPUT;
    d += "\"diverged\":[";
    for (size_t t = 0; t < pl.tasks.size(); ++t)
      for (size_t i = 0; i < pl.tasks[t].size(); ++i) {
        const Out& a = g_shm->outs[t][i];
        const Out& r = refs.outs[t][i];
        if (a.hash != r.hash || a.len != r.len) {
          ro.cls |= C_DIVERGE;
          if (ro.n_diverge < 8) {
            const PlanOp& po = pl.tasks[t][i];
            const OpDef* df = h::find_def(po.name.c_str());
            // first differing byte within the kept prefix
            int fd = -1;
            uint32_t np = a.nprefix < r.nprefix ? a.nprefix : r.nprefix;
            for (uint32_t k = 0; k < np; ++k)
              if (a.prefix[k] != r.prefix[k]) { fd = (int)k; break; }
            snprintf(b, sizeof b, "%s{\"task\":%zu,\"op\":%zu,\"name\":\"%s:%s\",\"len\":%" PRIu64 ",\"ref_len\":%" PRIu64 ",\"first_diff_byte\":%d}",
                     ro.n_diverge ? "," : "", t, i, po.name.c_str(), df ? df->fn_names[po.p[0]] : "?", a.len, r.len, fd);
            d += b;
          }
          if (ro.n_diverge == 0) { ro.diverge_task = (int)t; ro.diverge_op = (int)i; }
          ro.n_diverge++;
        }
      }
    d += "],";
  }
  if (!d.empty() && d.back() == ',') d.pop_back();
  ro.detail = d;
  return ro;
}

// ------------------------------------------------------------------------------------------------
// generation
// ------------------------------------------------------------------------------------------------

struct Rng {
  uint64_t s;
  uint64_t u64() { return mix64(s += 0x9e3779b97f4a7c15ull); }
  double unit() { return (double)(u64() >> 11) * (1.0 / 9007199254740992.0); }
  int64_t below(int64_t n) { return n > 0 ? (int64_t)(u64() % (uint64_t)n) : 0; }
  bool coin(double p) { return unit() < p; }
};

struct GenOpts {
  int thorough = 0;
  std::string only_family;  // restrict to families in this string (e.g. "AB"), empty = all
  std::string only_op;      // restrict to one op def name prefix
};

static const OpDef* pick_def(Rng& r, const std::vector<const OpDef*>& defs) {
  int64_t tot = 0;
  for (auto* d : defs) tot += d->weight;
  int64_t k = r.below(tot);
  for (auto* d : defs) {
    if (k < d->weight) return d;
    k -= d->weight;
  }
  return defs.back();
}

static PlanOp random_op(Rng& r, const OpDef* d) {
  PlanOp op;
  op.name = d->name;
  op.p[0] = r.below(d->nfn);
  op.p[1] = r.below(d->nobj);
  op.p[2] = r.below(d->nobj);
  op.p[3] = r.below(16);  // four free bits of per-operation variation (bits 2,3: rarely used alternatives)
  op.salt = r.u64();
  op.throw_at = (d->has_callback && r.coin(0.15)) ? (int)r.below(6) : -1;
  // call volume: a few operations repeat their call 16..256 times (counters that wrap, tables that
  // fill up, generations that come round again)
  op.rep = (!d->heavy && r.coin(0.06)) ? (16 << r.below(5)) : 1;
  return op;
}

// number of (operation definition, function) cells that match the generation options
static uint64_t count_cells(const GenOpts& go, std::vector<std::pair<const OpDef*, int>>* out) {
  uint64_t n = 0;
  for (size_t i = 0; i < h::n_defs(); ++i) {
    const OpDef* d = h::def_at(i);
    if (!go.only_family.empty() && go.only_family.find(d->family[0]) == std::string::npos) continue;
    if (!go.only_op.empty() && strncmp(d->name, go.only_op.c_str(), go.only_op.size()) != 0) continue;
    for (int f = 0; f < d->nfn; ++f) {
      if (out) out->push_back({d, f});
      ++n;
    }
  }
  return n;
}

static void gen_workload(uint64_t seed, uint64_t widx, const GenOpts& go, Plan& pl) {
  pl = Plan();
  Rng r{mix64(mix64(seed ^ 0xC18C18C18ull) + widx * 0x9e3779b97f4a7c15ull)};
  pl.seed = mix64(seed) ^ widx;
  pl.pool_seed = r.u64();
  pl.warm = (int)r.below(2);
  // Systematic part: the first workloads of every sweep are one 10..16-thread crowd per cell (every
  // thread calls the same function once or twice, on the same or on different shared objects), so
  // that each function of the registry meets a full crowd in every run of the check, not only when
  // the random part happens to draw it.  Everything after that is the random (swarm) part.
  {
    std::vector<std::pair<const OpDef*, int>> cells;
    uint64_t nc = count_cells(go, &cells);
    if (widx < nc) {
      const OpDef* d = cells[(size_t)widx].first;
      int fn = cells[(size_t)widx].second;
      int nt = d->heavy ? 10 : 10 + (int)r.below(7);
      pl.tasks.resize((size_t)nt);
      PlanOp base = random_op(r, d);
      base.p[0] = fn;
      base.rep = 1;
      bool same_objects = r.coin(0.5);
      for (int t = 0; t < nt; ++t) {
        PlanOp op = base;
        if (!same_objects) {
          op.p[1] = r.below(d->nobj);
          op.p[2] = r.below(d->nobj);
        }
        op.salt = r.u64();
        op.throw_at = (d->has_callback && r.coin(0.1)) ? (int)r.below(6) : -1;
        pl.tasks[(size_t)t].push_back(op);
        if (!d->heavy && r.coin(0.5)) pl.tasks[(size_t)t].push_back(op);
      }
      return;
    }
    // Second systematic pass: the same function of TWO different types (template instantiations) at
    // once — state that is per instantiation in one place and per process in another (a lock per
    // type around a helper shared by all types) only shows when the callers use different types.
    if (widx < 2 * nc) {
      const OpDef* d = cells[(size_t)(widx - nc)].first;
      int fn = cells[(size_t)(widx - nc)].second;
      const OpDef* partner = nullptr;
      size_t nd = h::n_defs();
      size_t start = 0;
      for (size_t i = 0; i < nd; ++i)
        if (h::def_at(i) == d) start = i;
      for (size_t k = 1; k < nd && !partner; ++k) {
        const OpDef* e = h::def_at((start + k) % nd);
        if (e == d || e->family[0] != d->family[0] || fn >= e->nfn || strcmp(e->fn_names[fn], d->fn_names[fn]) != 0) continue;
        if (!go.only_op.empty() && strncmp(e->name, go.only_op.c_str(), go.only_op.size()) != 0) continue;
        partner = e;
      }
      if (partner) {
        int nt = d->heavy ? 4 : 6;
        pl.tasks.resize((size_t)nt);
        for (int t = 0; t < nt; ++t) {
          const OpDef* use = (t % 2 == 0) ? d : partner;
          PlanOp op = random_op(r, use);
          op.p[0] = fn;
          op.rep = 1;
          op.throw_at = -1;
          pl.tasks[(size_t)t].push_back(op);
          if (!use->heavy) pl.tasks[(size_t)t].push_back(op);
        }
        return;
      }
    }
  }
  // swarm: number of tasks
  double u = r.unit();
  int nt = u < 0.45 ? 2 : u < 0.68 ? 3 : u < 0.82 ? 4 : u < 0.92 ? 5 + (int)r.below(4) : 9 + (int)r.below(8);
  // (the quick tier also reaches 16 threads: pools of N slots, per-thread tables and counters only
  // misbehave once enough callers are inside at the same time)
  pl.tasks.resize((size_t)nt);
  // swarm: enabled families
  std::string fams;
  for (char f = 'A'; f <= 'H'; ++f)
    if (go.only_family.empty() ? r.coin(0.55) : go.only_family.find(f) != std::string::npos) fams += f;
  std::vector<const OpDef*> defs;
  auto collect = [&](const std::string& fs) {
    defs.clear();
    for (size_t i = 0; i < h::n_defs(); ++i) {
      const OpDef* d = h::def_at(i);
      if (fs.find(d->family[0]) == std::string::npos) continue;
      if (!go.only_op.empty() && strncmp(d->name, go.only_op.c_str(), go.only_op.size()) != 0) continue;
      defs.push_back(d);
    }
  };
  collect(fams);
  if (defs.empty()) collect(go.only_family.empty() ? "ABCDEFGH" : go.only_family);
  if (defs.empty()) {
    fprintf(stderr, "gen: no op definitions match\n");
    exit(2);
  }
  // focus set: a few templates most tasks draw from, so that several tasks are inside the same
  // function on the same object (or the same cold static) at once
  // crowd workloads: many threads, all of them inside the same function
  const bool crowd = nt >= 6 && r.coin(nt >= 9 ? 0.85 : 0.5);
  int nfocus = crowd ? 1 : 1 + (int)r.below(3);
  std::vector<PlanOp> focus;
  for (int i = 0; i < nfocus; ++i) focus.push_back(random_op(r, pick_def(r, defs)));
  int maxops = go.thorough ? (r.coin(0.1) ? 20 : 8) : 4;
  int heavy_total = 0;
  for (int t = 0; t < nt; ++t) {
    int n = 1 + (int)r.below(maxops);
    int heavy_task = 0;
    for (int i = 0; i < n; ++i) {
      PlanOp op;
      if (r.coin(crowd ? 0.95 : 0.7)) {
        op = focus[(size_t)r.below(nfocus)];
        const OpDef* d = h::find_def(op.name.c_str());
        if (r.coin(0.25)) op.p[2] = r.below(d->nobj);
        if (r.coin(0.2)) { int64_t tmp = op.p[1]; op.p[1] = op.p[2]; op.p[2] = tmp; }  // same call, operands swapped
        if (!crowd && r.coin(0.15)) op.p[0] = r.below(d->nfn);
        if (r.coin(0.5)) op.salt = r.u64();
        if (d->has_callback) op.throw_at = r.coin(0.15) ? (int)r.below(6) : -1;
      } else {
        op = random_op(r, pick_def(r, defs));
      }
      const OpDef* d = h::find_def(op.name.c_str());
      if (d->heavy) {
        if (heavy_task >= 1 || heavy_total >= 3) { --i; if (r.coin(0.2)) break; continue; }
        heavy_task++;
        heavy_total++;
      }
      pl.tasks[(size_t)t].push_back(op);
    }
    if (pl.tasks[(size_t)t].empty()) pl.tasks[(size_t)t].push_back(focus[0]);
  }
}

static void gen_sched(uint64_t seed, uint64_t widx, uint64_t sidx, const Plan& pl, const Refs& refs, SchedSpec& sc) {
  sc = SchedSpec();
  Rng r{mix64(mix64(mix64(seed ^ 0x5c4ed5c4edull) + widx) + sidx * 0x9e3779b97f4a7c15ull)};
  sc.seed = r.u64();
  if (sidx == 0) {
    sc.strategy = sim::S_SERIAL;
    return;
  }
  double u = r.unit();
  static const double walk_p[] = {1e-4, 1e-3, 0.01, 0.05, 0.2, 0.5};
  static const int pct_d[] = {1, 2, 3, 5};
  if (refs.lock_events > 0 && r.coin(0.5)) {
    // the code under test takes locks: concentrate the switches on synchronisation events, where
    // lock-order and check-then-act problems live
    if (r.coin(0.4)) {
      sc.strategy = sim::S_LOCKSTEP;
    } else {
      sc.strategy = sim::S_SYNC;
      sc.p = r.coin(0.5) ? 0.5 : 0.25;
    }
  } else if (u < 0.35) {
    sc.strategy = sim::S_WALK;
    sc.p = walk_p[r.below(6)];
    // bound the cost of a run: at most ~2*10^5 context switches (a hand-off costs microseconds)
    if (refs.total_events > 0 && sc.p * (double)refs.total_events > 2e5) sc.p = 2e5 / (double)refs.total_events;
  } else if (u < 0.60) {
    sc.strategy = sim::S_PCT;
    sc.depth = pct_d[r.below(4)];
  } else if (u < 0.75) {
    sc.strategy = sim::S_SYNC;
    sc.p = r.coin(0.5) ? 0.1 : 0.5;
  } else if (u < 0.85) {
    sc.strategy = sim::S_OPGRAIN;
    sc.p = 0.5;
  } else {
    sc.strategy = sim::S_SERIAL;  // serial order perturbed only by injected faults
  }
  // faults, attached to operations; offsets land inside the operation (event counts from the
  // solo reference runs)
  int nfaults = 0;
  if (sc.strategy == sim::S_SERIAL) nfaults = 1 + (int)r.below(4);
  else if (r.coin(0.5)) nfaults = 1 + (int)r.below(3);
  int nt = (int)pl.tasks.size();
  for (int i = 0; i < nfaults; ++i) {
    sim::Fault f{};
    double k = r.unit();
    f.task = (int)r.below(nt);
    int nops = (int)pl.tasks[(size_t)f.task].size();
    f.op = (int)r.below(nops);
    uint64_t oe = refs.op_events[f.task][f.op];
    f.off = oe > 2 ? 1 + (uint64_t)r.below((int64_t)oe - 1) : 1;
    if (k < 0.45) {
      f.kind = sim::F_PREEMPT;
    } else if (k < 0.78) {
      f.kind = sim::F_STALL;
      f.arg = 1 + (uint64_t)r.below(4);
    } else if (k < 0.88) {
      // the clock jumps by 1 ms .. 100 s while the task is inside the operation
      f.kind = sim::F_CLOCK;
      f.arg = 1000000ull;
      for (int64_t e = r.below(6); e > 0; --e) f.arg *= 10;
    } else {
      f.kind = sim::F_LATE;
      f.op = -1;
      f.off = 0;
      f.arg = 1 + (uint64_t)r.below((int64_t)(refs.total_events / 2 + 1));
    }
    sc.faults.push_back(f);
  }
}

// ------------------------------------------------------------------------------------------------
// reporting
// ------------------------------------------------------------------------------------------------

static const char* cls_name(unsigned c) {
  if (c & C_MACHINERY) return "machinery";
  if (c & C_CRASH) return "crash";
  if (c & C_DEADLOCK) return "deadlock";
  if (c & C_PROGRESS) return "progress";
  if (c & C_RACE) return "race";
  if (c & C_DIVERGE) return "diverge";
  if (c & C_INPUT) return "input_changed";
  if (c & C_BUDGET) return "budget";
  return "ok";
}

// op label ids for coverage: def index * 64 + fn
static int def_index(const OpDef* d) {
  for (size_t i = 0; i < h::n_defs(); ++i)
    if (h::def_at(i) == d) return (int)i;
  return -1;
}

static std::string run_json(const char* tag, uint64_t seed, uint64_t widx, uint64_t sidx, const Plan& pl, const Refs& refs,
                            const RunOutcome& ro, const std::string& cand_path, double wall) {
  const sim::Result& res = g_shm->res;
  char b[1024];
  std::string s = "{";
  snprintf(b, sizeof b,
           "\"t\":\"%s\",\"seed\":%" PRIu64 ",\"w\":%" PRIu64 ",\"s\":%" PRIu64 ",\"ntasks\":%zu,\"warm\":%d,\"strategy\":\"%s\","
           "\"p\":%g,\"depth\":%d,\"cls\":\"%s\",\"clsbits\":%u,\"events\":%" PRIu64 ",\"ref_events\":%" PRIu64
           ",\"switches\":%" PRIu64 ",\"forced\":%" PRIu64 ",\"log\":\"%s\",\"sched\":\"%s\",\"csig\":\"%s\",\"conflicts\":%" PRIu64
           ",\"races_total\":%" PRIu64 ",\"guard_init\":%" PRIu64 ",\"guard_block\":%" PRIu64 ",\"preempt_in_init\":%" PRIu64
           ",\"mutex_block\":%" PRIu64 ",\"fired\":[%" PRIu64 ",%" PRIu64 ",%" PRIu64 ",%" PRIu64 "],\"fair\":%d,\"ev_static\":%" PRIu64
           ",\"ev_heap\":%" PRIu64 ",\"pool_objects\":%" PRIu64 ",\"wall\":%.4f",
           tag, seed, widx, sidx, pl.tasks.size(), pl.warm, kStratName[pl.sched.strategy], pl.sched.p, pl.sched.depth,
           cls_name(ro.cls), ro.cls, res.events, refs.total_events, res.switches, res.forced_switches, hex64(res.log_hash).c_str(),
           hex64(res.sched_hash).c_str(), hex64(res.conflict_sig).c_str(), res.conflict_events, res.races_total,
           res.guard_init_in_sim, res.guard_block, res.preempt_in_init, res.mutex_block, res.fault_fired[0], res.fault_fired[1],
           res.fault_fired[2], res.fault_fired[3], res.fair_mode_entered, res.events_by_class[1], res.events_by_class[2], g_shm->pool_objects, wall);
  s += b;
  snprintf(b, sizeof b, ",\"lib_threads\":[%" PRIu64 ",%" PRIu64 ",%" PRIu64 ",%" PRIu64 "]", g_shm->prep_threads, res.dynamic_threads,
           res.adopted_threads, res.daemon_threads);
  s += b;
  // event kinds
  s += ",\"kinds\":[";
  for (int k = 0; k < sim::EV_NKINDS; ++k) {
    snprintf(b, sizeof b, "%s%" PRIu64, k ? "," : "", res.ev_by_kind[k]);
    s += b;
  }
  s += "]";
  // throws that fired
  int throws = 0;
  for (size_t t = 0; t < pl.tasks.size(); ++t)
    for (size_t i = 0; i < pl.tasks[t].size(); ++i) throws += g_shm->threw[t][i];
  snprintf(b, sizeof b, ",\"throws\":%d", throws);
  s += b;
  // coverage cells: every op executed, and those with a preemption strictly inside them; overlap =
  // a switch from inside an operation to a task whose current/next operation uses the same def
  std::vector<int> cells, inside, overlap;
  for (size_t t = 0; t < pl.tasks.size(); ++t)
    for (const auto& po : pl.tasks[t]) {
      const OpDef* d = h::find_def(po.name.c_str());
      cells.push_back(def_index(d) * 64 + (int)po.p[0]);
    }
  // progress of each task as the switch log is walked: the op index each task is in
  std::vector<int> cur(pl.tasks.size(), -1);
  int n_inside = 0, n_overlap = 0;
  for (size_t k = 0; k < g_shm->n_sw; ++k) {
    const sim::Switch& w = g_shm->sw[k];
    if (w.task < 0 || (size_t)w.task >= pl.tasks.size()) continue;  // controller / a thread created by the code under test
    cur[(size_t)w.task] = w.op;
    if (w.op < 0 || w.op >= (int)pl.tasks[(size_t)w.task].size()) continue;
    uint64_t oe = refs.op_events[w.task][w.op];
    bool in = w.off > 0 && w.off + 1 < oe && w.forced != 2;
    if (!in) continue;
    n_inside++;
    const PlanOp& po = pl.tasks[(size_t)w.task][(size_t)w.op];
    const OpDef* d = h::find_def(po.name.c_str());
    inside.push_back(def_index(d) * 64 + (int)po.p[0]);
    if (w.to >= 0 && (size_t)w.to < pl.tasks.size()) {
      int oc = cur[(size_t)w.to];
      int on = oc < 0 ? 0 : oc;
      for (int j = on; j <= on + 1 && j < (int)pl.tasks[(size_t)w.to].size(); ++j)
        if (pl.tasks[(size_t)w.to][(size_t)j].name == po.name) {
          n_overlap++;
          overlap.push_back(def_index(d) * 64 + (int)po.p[0]);
          break;
        }
    }
  }
  auto uniq = [](std::vector<int>& v) {
    std::vector<int> o;
    for (int x : v) {
      bool f = false;
      for (int y : o) f = f || x == y;
      if (!f) o.push_back(x);
    }
    v = o;
  };
  uniq(cells);
  uniq(inside);
  uniq(overlap);
  auto emit = [&](const char* key, const std::vector<int>& v) {
    s += std::string(",\"") + key + "\":[";
    for (size_t i = 0; i < v.size(); ++i) {
      snprintf(b, sizeof b, "%s%d", i ? "," : "", v[i]);
      s += b;
    }
    s += "]";
  };
  emit("cells", cells);
  emit("inside", inside);
  emit("overlap", overlap);
  snprintf(b, sizeof b, ",\"n_inside\":%d,\"n_overlap\":%d", n_inside, n_overlap);
  s += b;
  if (!ro.detail.empty()) s += "," + ro.detail;
  if (!cand_path.empty()) s += ",\"cand\":\"" + json_escape(cand_path) + "\"";
  s += "}";
  return s;
}

// plan with the schedule actually taken made explicit (the replayable artefact)
static Plan with_explicit_schedule(const Plan& pl) {
  Plan q = pl;
  q.sched.strategy = sim::S_EXPLICIT;
  // the recorded switch list replaces preemptions, stalls and late starts; a clock jump is not a
  // switch and stays in the plan
  {
    std::vector<sim::Fault> keep;
    for (const auto& f : q.sched.faults)
      if (f.kind == sim::F_CLOCK) keep.push_back(f);
    q.sched.faults = keep;
  }
  q.sched.sw.assign(g_shm->sw, g_shm->sw + (size_t)g_shm->n_sw);
  return q;
}

static bool write_file(const std::string& path, const std::string& text) {
  FILE* f = fopen(path.c_str(), "w");
  if (!f) return false;
  fwrite(text.data(), 1, text.size(), f);
  fclose(f);
  return true;
}

static bool read_file(const std::string& path, std::string& text) {
  FILE* f = fopen(path.c_str(), "r");
  if (!f) return false;
  char buf[65536];
  size_t n;
  text.clear();
  while ((n = fread(buf, 1, sizeof buf, f)) > 0) text.append(buf, n);
  fclose(f);
  return true;
}

// ------------------------------------------------------------------------------------------------
// commands
// ------------------------------------------------------------------------------------------------

static void print_defs() {
  printf("{\"t\":\"defs\",\"defs\":[");
  for (size_t i = 0; i < h::n_defs(); ++i) {
    const OpDef* d = h::def_at(i);
    printf("%s{\"i\":%zu,\"name\":\"%s\",\"family\":\"%s\",\"heavy\":%d,\"fns\":[", i ? "," : "", i, d->name, d->family, d->heavy);
    for (int k = 0; k < d->nfn; ++k) printf("%s\"%s\"", k ? "," : "", d->fn_names[k]);
    printf("]}");
  }
  printf("]}\n");
}

static int cmd_exec(const std::string& path, const std::string& out_explicit) {
  std::string text, err;
  if (!read_file(path, text)) { fprintf(stderr, "cannot read %s\n", path.c_str()); return 2; }
  Plan pl;
  if (!plan_from_text(text.c_str(), pl, err)) { fprintf(stderr, "bad plan: %s\n", err.c_str()); return 2; }
  Refs refs;
  compute_refs(pl, refs);
  if (!refs.ok) {
    printf("{\"t\":\"exec\",\"cls\":\"reference_failed\",\"why\":\"%s\"}\n", json_escape(refs.why).c_str());
    return 3;
  }
  double t0 = now_s();
  RunOutcome ro = execute_run(pl, refs);
  std::string cand;
  if (!out_explicit.empty()) {
    Plan q = with_explicit_schedule(pl);
    if (write_file(out_explicit, plan_to_text(q))) cand = out_explicit;
  }
  printf("%s\n", run_json("exec", pl.seed, 0, 0, pl, refs, ro, cand, now_s() - t0).c_str());
  unsigned viol = ro.cls & (C_RACE | C_DIVERGE | C_INPUT | C_DEADLOCK | C_PROGRESS | C_CRASH);
  if (ro.cls & C_MACHINERY) return 2;
  return viol ? 1 : 0;
}

static int cmd_sweep(uint64_t seed, uint64_t w0, uint64_t wstep, double deadline_s, int scheds_per_workload, const GenOpts& go,
                     const std::string& cand_dir, int twice, uint64_t max_workloads, int max_cands) {
  int n_cands = 0;
  double t_end = now_s() + deadline_s;
  uint64_t nw = 0;
  for (uint64_t widx = w0; now_s() < t_end && nw < max_workloads; widx += wstep, ++nw) {
    Plan pl;
    gen_workload(seed, widx, go, pl);
    Refs refs;
    compute_refs(pl, refs);
    if (!refs.ok) {
      printf("{\"t\":\"ref_failed\",\"seed\":%" PRIu64 ",\"w\":%" PRIu64 ",\"why\":\"%s\"}\n", seed, widx,
             json_escape(refs.why).c_str());
      fflush(stdout);
      continue;
    }
    if (refs.internal_task >= 0) {
      // one caller alone already violates the property (the operation runs threads of its own that
      // race or deadlock with each other): report that single-caller plan
      Plan q = pl;
      q.tasks.assign(1, pl.tasks[(size_t)refs.internal_task]);
      q.sched = SchedSpec();
      q.sched.strategy = sim::S_WALK;
      q.sched.seed = mix64(seed ^ widx);
      q.sched.p = 0.05;
      Refs rq;
      compute_refs(q, rq);
      if (rq.ok) {
        double t0 = now_s();
        RunOutcome ro = execute_run(q, rq);
        std::string cand;
        unsigned viol = ro.cls & (C_RACE | C_DIVERGE | C_INPUT | C_DEADLOCK | C_PROGRESS | C_CRASH | C_MACHINERY);
        if (viol && !cand_dir.empty() && n_cands < max_cands) {
          n_cands++;
          char nm[256];
          snprintf(nm, sizeof nm, "%s/cand-%" PRIu64 "-%" PRIu64 "-solo.plan", cand_dir.c_str(), seed, widx);
          Plan qe = (g_shm->stage >= 3 && g_shm->n_sw > 0 && g_shm->n_sw < kShmSwitches) ? with_explicit_schedule(q) : q;
          if (write_file(nm, plan_to_text(qe))) cand = nm;
        }
        printf("%s\n", run_json("run", seed, widx, 999, q, rq, ro, cand, now_s() - t0).c_str());
        fflush(stdout);
      }
    }
    printf("{\"t\":\"workload\",\"seed\":%" PRIu64 ",\"w\":%" PRIu64 ",\"ntasks\":%zu,\"warm\":%d,\"ref_events\":%" PRIu64
           ",\"ref_guard_inits\":%" PRIu64 ",\"ref_races\":%" PRIu64 "}\n",
           seed, widx, pl.tasks.size(), pl.warm, refs.total_events, refs.guard_inits, refs.races);
    for (int sidx = 0; sidx < scheds_per_workload && now_s() < t_end; ++sidx) {
      gen_sched(seed, widx, (uint64_t)sidx, pl, refs, pl.sched);
      double t0 = now_s();
      RunOutcome ro = execute_run(pl, refs);
      std::string cand;
      unsigned viol = ro.cls & (C_RACE | C_DIVERGE | C_INPUT | C_DEADLOCK | C_PROGRESS | C_CRASH | C_MACHINERY);
      if (viol && !cand_dir.empty() && n_cands < max_cands) {
        n_cands++;
        char nm[256];
        snprintf(nm, sizeof nm, "%s/cand-%" PRIu64 "-%" PRIu64 "-%d.plan", cand_dir.c_str(), seed, widx, sidx);
        Plan q = (g_shm->stage >= 3 && g_shm->n_sw > 0 && g_shm->n_sw < kShmSwitches) ? with_explicit_schedule(pl) : pl;
        if (write_file(nm, plan_to_text(q))) cand = nm;
      }
      std::string line = run_json("run", seed, widx, (uint64_t)sidx, pl, refs, ro, cand, now_s() - t0);
      if (twice && !(ro.cls & (C_BUDGET | C_MACHINERY))) {
        // determinism sample: the same run again in another fresh process must give the same log
        uint64_t h1 = g_shm->res.log_hash, s1 = g_shm->res.sched_hash, c1 = g_shm->res.conflict_sig, r1 = g_shm->res.races_total;
        uint64_t o1 = 0;
        for (size_t t = 0; t < pl.tasks.size(); ++t)
          for (size_t i = 0; i < pl.tasks[t].size(); ++i) o1 = mix64(o1 ^ g_shm->outs[t][i].hash);
        unsigned cls1 = ro.cls;
        RunOutcome ro2 = execute_run(pl, refs);
        uint64_t o2 = 0;
        for (size_t t = 0; t < pl.tasks.size(); ++t)
          for (size_t i = 0; i < pl.tasks[t].size(); ++i) o2 = mix64(o2 ^ g_shm->outs[t][i].hash);
        bool same = h1 == g_shm->res.log_hash && s1 == g_shm->res.sched_hash && c1 == g_shm->res.conflict_sig &&
                    r1 == g_shm->res.races_total && o1 == o2 && cls1 == ro2.cls;
        printf("{\"t\":\"twice\",\"seed\":%" PRIu64 ",\"w\":%" PRIu64 ",\"s\":%d,\"same\":%d}\n", seed, widx, sidx, (int)same);
      }
      printf("%s\n", line.c_str());
      fflush(stdout);
    }
  }
  printf("{\"t\":\"done\",\"workloads\":%" PRIu64 "}\n", nw);
  fflush(stdout);
  return 0;
}

static void usage() {
  fprintf(stderr,
          "usage:\n"
          "  c18sim defs\n"
          "  c18sim gen <seed> <widx> <sidx> [--thorough] [--family F] [--op NAME]\n"
          "  c18sim exec <plan> [--explicit-out <path>]\n"
          "  c18sim sweep <seed> <w0> <wstep> <deadline_s> <scheds> [--thorough] [--family F] [--op NAME]\n"
          "               [--cand-dir D] [--twice] [--max-workloads N]\n");
}

int main(int argc, char** argv) {
  // identical addresses in every process: switch ASLR off once and re-exec
  if (!getenv("C18SIM_NOASLR_DONE")) {
    int pers = personality(0xffffffff);
    if (pers >= 0 && !(pers & ADDR_NO_RANDOMIZE) && personality(pers | ADDR_NO_RANDOMIZE) >= 0) {
      setenv("C18SIM_NOASLR_DONE", "1", 1);
      // no per-thread malloc cache: its double-free detection compares against a per-process RANDOM key,
      // which makes the behaviour of a run that has already corrupted its heap differ between processes
      setenv("GLIBC_TUNABLES", "glibc.malloc.tcache_count=0", 1);
      execv("/proc/self/exe", argv);
    }
  }
  setvbuf(stdout, nullptr, _IOFBF, 1 << 16);
  sim::init();
  g_shm = (Shm*)mmap(nullptr, sizeof(Shm), PROT_READ | PROT_WRITE, MAP_SHARED | MAP_ANONYMOUS, -1, 0);
  if (g_shm == MAP_FAILED) { perror("mmap"); return 2; }
  if (argc < 2) { usage(); return 2; }
  std::string cmd = argv[1];
  GenOpts go;
  std::string cand_dir, explicit_out;
  int twice = 0;
  uint64_t max_workloads = ~0ull;
  int max_cands = 12;
  std::vector<std::string> pos;
  for (int i = 2; i < argc; ++i) {
    std::string a = argv[i];
    if (a == "--thorough") go.thorough = 1;
    else if (a == "--family" && i + 1 < argc) go.only_family = argv[++i];
    else if (a == "--op" && i + 1 < argc) go.only_op = argv[++i];
    else if (a == "--cand-dir" && i + 1 < argc) cand_dir = argv[++i];
    else if (a == "--explicit-out" && i + 1 < argc) explicit_out = argv[++i];
    else if (a == "--twice") twice = 1;
    else if (a == "--max-workloads" && i + 1 < argc) max_workloads = strtoull(argv[++i], nullptr, 10);
    else if (a == "--max-cands" && i + 1 < argc) max_cands = atoi(argv[++i]);
    else pos.push_back(a);
  }
  if (cmd == "defs") { print_defs(); return 0; }
  if (cmd == "gen" && pos.size() >= 3) {
    Plan pl;
    uint64_t seed = strtoull(pos[0].c_str(), nullptr, 10), w = strtoull(pos[1].c_str(), nullptr, 10),
             s = strtoull(pos[2].c_str(), nullptr, 10);
    gen_workload(seed, w, go, pl);
    Refs refs;
    compute_refs(pl, refs);
    if (!refs.ok) {
      // still print the workload (serial schedule), so that the failing reference can be inspected
      fprintf(stderr, "%s\n", refs.why.c_str());
      fputs(plan_to_text(pl).c_str(), stdout);
      return 3;
    }
    gen_sched(seed, w, s, pl, refs, pl.sched);
    fputs(plan_to_text(pl).c_str(), stdout);
    return 0;
  }
  if (cmd == "exec" && pos.size() >= 1) return cmd_exec(pos[0], explicit_out);
  if (cmd == "sweep" && pos.size() >= 5) {
    return cmd_sweep(strtoull(pos[0].c_str(), nullptr, 10), strtoull(pos[1].c_str(), nullptr, 10),
                     strtoull(pos[2].c_str(), nullptr, 10), atof(pos[3].c_str()), atoi(pos[4].c_str()), go, cand_dir, twice,
                     max_workloads, max_cands);
  }
  usage();
  return 2;
}
