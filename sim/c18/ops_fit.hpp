// Family G: curve construction on shared const data: fit_spline, fit_spline_cubic, fit_bspline,
// dubins_curve, reparameterize_spline.
#pragma once
#include "ops_common.hpp"
#include "smooth/spline/dubins.hpp"
#include "smooth/spline/fit.hpp"
#include "smooth/spline/reparameterize.hpp"
#include "smooth/spline/spline.hpp"

namespace ops {

template<class G>
struct FitData {
  std::vector<double> ts;
  std::vector<G> gs;
};
template<class G>
FitData<G>* make_fitdata(In& in, int index) {
  auto* d = new FitData<G>;
  // 2 points (the smallest legal data set), a handful, and a long record
  const int n = index == 0 ? 2 : index == 2 ? 24 : 4 + index;
  double t = 0;
  G g = make_elem<G>(in, 0);
  for (int i = 0; i < n; ++i) {
    d->ts.push_back(t);
    d->gs.push_back(g);
    t += 0.5 + in.unit();
    g = smooth::rplus(g, make_tan<G>(in, 3) * 4.0);
  }
  return d;
}
template<class G>
void digest_fitdata(const FitData<G>& d, Out& out) {
  for (double t : d.ts) out.f64(t);
  for (const auto& g : d.gs) put_elem(out, g);
}

template<class Sp>
inline void put_curve(Out& out, const Sp& sp, int n = 5) {
  out.f64(sp.t_min());
  out.f64(sp.t_max());
  using G = std::decay_t<decltype(sp(0.0))>;
  for (int i = 0; i <= n; ++i) {
    smooth::Tangent<G> v, a;
    const double t = sp.t_min() + (sp.t_max() - sp.t_min()) * i / n;
    put_elem(out, sp(t, v, a));
    put_mat(out, v);
    put_mat(out, a);
  }
}

inline const char* const kFitFn[] = {"fit_spline_cubic", "fit_spline_fixedder", "fit_spline_linear", "fit_bspline3",
                                     "fit_spline_minjerk", "fit_spline_1d", "fit_bspline2"};
constexpr int kFitNFn = sizeof(kFitFn) / sizeof(kFitFn[0]);

template<class G, class Tag>
struct FitOps {
  struct St {
    const FitData<G>* d;
  };
  static void prep(OpInst& op, Pool& pool) {
    auto* st = new St;
    st->d = &h::pool_get<FitData<G>, &make_fitdata<G>, &digest_fitdata<G>>(pool, Tag::elem, (int)op.p[1]);
    op.st = st;
  }
  static void run(OpInst& op, Out& out) {
    const auto* st = static_cast<const St*>(op.st);
    const FitData<G>& d = *st->d;
    switch (op.p[0]) {
      case 0: put_curve(out, smooth::fit_spline_cubic(d.ts, d.gs)); break;
      case 1: put_curve(out, smooth::fit_spline(d.ts, d.gs, smooth::spline_specs::FixedDerCubic<G, 1, 1>{})); break;
      case 2: put_curve(out, smooth::fit_spline(d.ts, d.gs, smooth::spline_specs::PiecewiseLinear<G>{})); break;
      case 3: put_curve(out, smooth::fit_bspline<3>(d.ts, d.gs, 0.8)); break;
      case 4: put_curve(out, smooth::fit_spline(d.ts, d.gs, smooth::spline_specs::MinDerivative<G, 6, 3, 3>{})); break;
      case 5: {
        std::vector<double> dt, dx;
        for (size_t i = 0; i + 1 < d.ts.size(); ++i) {
          dt.push_back(d.ts[i + 1] - d.ts[i]);
          dx.push_back(0.3 * (double)(i + 1));
        }
        put_mat(out, smooth::fit_spline_1d(dt, dx, smooth::spline_specs::FixedDerCubic<double>{}));
        break;
      }
      case 6: put_curve(out, smooth::fit_bspline<2>(d.ts, d.gs, 1.1)); break;
      default: out.tag("?"); break;
    }
  }
  static constexpr OpDef def = {Tag::lie, "G", kFitNFn, kFitFn, 3, 6, 1, 0, &prep, &run};
};

inline const char* const kCurveFn[] = {"dubins3", "dubins1", "reparameterize", "dubins_then_reparameterize"};
constexpr int kCurveNFn = sizeof(kCurveFn) / sizeof(kCurveFn[0]);

inline smooth::CubicSpline<smooth::SE2d>* make_path(In& in, int index) {
  auto* c = new smooth::CubicSpline<smooth::SE2d>();
  for (int i = 0; i < 2 + index; ++i)
    *c += smooth::CubicSpline<smooth::SE2d>::ConstantVelocity(Eigen::Vector3d(1, 0, in.sym(1.0)), 0.5 + in.unit());
  return c;
}
inline void digest_path(const smooth::CubicSpline<smooth::SE2d>& c, Out& out) {
  out.f64(c.t_max());
  out.i64((int64_t)c.size());
  put_elem(out, c.end());
}

// Dubins targets chosen so that every geometric case of the planner occurs: coinciding turning
// circles (same position), infeasible circle-circle-circle words (far away), targets behind and
// beside the start, tangent configurations, and generic ones
inline smooth::SE2d* make_target(In& in, int index) {
  switch (index) {
    case 0: return new smooth::SE2d(smooth::SE2d::Identity());
    case 1: return new smooth::SE2d(smooth::SO2d(1.5707963267948966), Eigen::Vector2d(0, 0));
    case 2: return new smooth::SE2d(smooth::SO2d(0.4), Eigen::Vector2d(10.0, 3.0));
    case 3: return new smooth::SE2d(smooth::SO2d(3.1), Eigen::Vector2d(-8.0, 0.1));
    case 4: return new smooth::SE2d(smooth::SO2d(0.0), Eigen::Vector2d(0.0, 0.3));
    case 5: return new smooth::SE2d(smooth::SO2d(3.141592653589793), Eigen::Vector2d(0.0, 2.0));
    case 6: return new smooth::SE2d(smooth::SO2d(-1.0), Eigen::Vector2d(0.0, -1.4));
    case 7: return new smooth::SE2d(smooth::SO2d(0.0), Eigen::Vector2d(4.0, 0.0));
    default: return new smooth::SE2d(smooth::SO2d(in.sym(3.0)), Eigen::Vector2d(in.sym(6.0), in.sym(6.0)));
  }
}
inline void digest_target(const smooth::SE2d& g, Out& out) { put_elem(out, g); }

struct CurveTag {
  static constexpr const char* lie = "curve.SE2d";
};

struct CurveOps {
  struct St {
    const smooth::SE2d* target;
    const smooth::CubicSpline<smooth::SE2d>* path;
  };
  static void prep(OpInst& op, Pool& pool) {
    auto* st = new St;
    // p[3] bit 3: a target from the general SE2 pool, otherwise one of the chosen geometric cases
    st->target = (op.p[3] & 8) ? &shared_elem<smooth::SE2d>(pool, "elem.SE2d", (int)op.p[1])
                               : &h::pool_get<smooth::SE2d, &make_target, &digest_target>(pool, "curve.target", (int)op.p[1]);
    st->path = &h::pool_get<smooth::CubicSpline<smooth::SE2d>, &make_path, &digest_path>(pool, "curve.path", (int)op.p[2] % 3);
    op.st = st;
  }
  static void run(OpInst& op, Out& out) {
    const auto* st = static_cast<const St*>(op.st);
    const Eigen::Vector3d vmax(1, 1, 1), amax(1, 1, 1);
    switch (op.p[0]) {
      case 0: put_curve(out, smooth::dubins_curve<3>(*st->target, 0.7)); break;
      case 1: put_curve(out, smooth::dubins_curve<1>(*st->target)); break;
      case 2: {
        if (op.p[3] & 4) {
          // no velocity bound at all: the per-sample linear programs are unbounded (another solver exit)
          const Eigen::Vector3d vinf = Eigen::Vector3d::Constant(std::numeric_limits<double>::infinity());
          put_curve(out, smooth::reparameterize_spline(*st->path, -vinf, vinf, -amax, amax, 1, 1, 30));
          break;
        }
        const auto s = smooth::reparameterize_spline(*st->path, -vmax, vmax, -amax, amax, 1, 1, 30);
        put_curve(out, s);
        break;
      }
      case 3: {
        const auto c = smooth::dubins_curve<3>(*st->target);
        put_curve(out, c);
        // a target equal to the start gives an EMPTY curve; reparameterising that is outside the function's
        // domain (the library asserts T > 0 on the segments it would build)
        if (c.size() > 0 && c.t_max() > 0) {
          const auto s = smooth::reparameterize_spline(c, -vmax, vmax, -amax, amax, 0.5, 0.5, 20);
          put_curve(out, s);
        }
        break;
      }
      default: out.tag("?"); break;
    }
  }
  static constexpr OpDef def = {CurveTag::lie, "G", kCurveNFn, kCurveFn, 10, 6, 1, 0, &prep, &run};
};

#define OPS_TAG5(NAME, BASE)                             \
  struct Tag_##NAME {                                    \
    static constexpr const char* elem = "fitdata." #BASE; \
    static constexpr const char* lie = "fit." #BASE;     \
  }
#define REG_FIT(G, BASE)     \
  OPS_TAG5(Fit##BASE, BASE); \
  static ::ops::Registrar reg_fit_##BASE(&::ops::FitOps<G, Tag_Fit##BASE>::def)

}  // namespace ops
