#include "ops_lie.hpp"
using SE23d = smooth::SE_K_3<double, 2>;
REG_LIE(smooth::Galileid, Galileid);
REG_LIE(SE23d, SE23d);
