#include "ops_fit.hpp"
using namespace smooth;
REG_FIT(SO3d, SO3d);
