// Uninstrumented harness core: input streams, output sinks, operation registry, object pool.
#include "h.hpp"

#include <cstdio>
#include <cstdlib>
#include <cstring>

#include "../rt/sim.h"

namespace h {

uint64_t mix64(uint64_t x) {
  x += 0x9e3779b97f4a7c15ull;
  x = (x ^ (x >> 30)) * 0xbf58476d1ce4e5b9ull;
  x = (x ^ (x >> 27)) * 0x94d049bb133111ebull;
  return x ^ (x >> 31);
}

uint64_t In::u64() { return mix64(s += 0x9e3779b97f4a7c15ull); }
double In::unit() { return (double)(u64() >> 11) * (1.0 / 9007199254740992.0); }
double In::sym(double a) { return (2.0 * unit() - 1.0) * a; }
int64_t In::below(int64_t n) { return n > 0 ? (int64_t)(u64() % (uint64_t)n) : 0; }

void Out::reset() {
  hash = 0x243f6a8885a308d3ull;
  len = 0;
  nprefix = 0;
}
void Out::put(const void* p, size_t n) {
  const uint8_t* b = static_cast<const uint8_t*>(p);
  size_t i = 0;
  for (; i + 8 <= n; i += 8) {
    uint64_t w;
    memcpy(&w, b + i, 8);
    hash = mix64(hash ^ w);
  }
  if (i < n) {
    uint64_t w = 0;
    memcpy(&w, b + i, n - i);
    hash = mix64(hash ^ w ^ ((uint64_t)(n - i) << 56));
  }
  size_t room = sizeof prefix - nprefix;
  size_t c = n < room ? n : room;
  memcpy(prefix + nprefix, b, c);
  nprefix += (uint32_t)c;
  len += n;
}
void Out::tag(const char* s) { put(s, strlen(s)); }
void Out::i64(int64_t v) { put(&v, sizeof v); }
void Out::f64(double v) { put(&v, sizeof v); }

// ---- registry ----
static const OpDef* g_defs[512];
static size_t g_ndefs;

void reg(const OpDef* d) {
  if (g_ndefs >= 512) {
    fprintf(stderr, "h: too many op defs\n");
    _Exit(2);
  }
  g_defs[g_ndefs++] = d;
}
size_t n_defs() { return g_ndefs; }
const OpDef* def_at(size_t i) { return g_defs[i]; }
const OpDef* find_def(const char* name) {
  for (size_t i = 0; i < g_ndefs; ++i)
    if (!strcmp(g_defs[i]->name, name)) return g_defs[i];
  return nullptr;
}

void cb_tick(OpInst& op) {
  int k = op.cb_count++;
  if (op.throw_at >= 0 && k == op.throw_at) throw HarnessThrow{k};
}

// ---- pool ----
struct PoolEnt {
  const char* kind;
  int index;
  void* obj;
  DigestFn digest;
  size_t bytes;
};
static PoolEnt g_pool[2048];
static size_t g_npool;
static Pool g_the_pool;

Pool& the_pool() { return g_the_pool; }

const void* Pool::get(const char* kind, int index, MakeFn make, DigestFn digest, size_t bytes) {
  for (size_t i = 0; i < g_npool; ++i)
    if (g_pool[i].index == index && !strcmp(g_pool[i].kind, kind)) return g_pool[i].obj;
  if (sim::in_task() && !preparing) {
    fprintf(stderr, "h: pool object %s[%d] requested from inside a task (prep() incomplete)\n", kind, index);
    _Exit(2);
  }
  if (g_npool >= 2048) {
    fprintf(stderr, "h: pool full\n");
    _Exit(2);
  }
  uint64_t kh = 1469598103934665603ull;
  for (const char* c = kind; *c; ++c) kh = (kh ^ (uint8_t)*c) * 1099511628211ull;
  In in{mix64(seed ^ mix64(kh ^ ((uint64_t)index << 32)))};
  void* obj = make(in, index);
  g_pool[g_npool++] = PoolEnt{kind, index, obj, digest, bytes};
  return obj;
}
size_t Pool::size() const { return g_npool; }
void Pool::digest_all(Out& out) const {
  for (size_t i = 0; i < g_npool; ++i) {
    out.tag(g_pool[i].kind);
    out.i64(g_pool[i].index);
    if (g_pool[i].digest) g_pool[i].digest(g_pool[i].obj, out);
  }
}
void Pool::register_regions() const {
  sim::clear_regions();
  for (size_t i = 0; i < g_npool; ++i) sim::register_region(g_pool[i].obj, g_pool[i].bytes, (int)i);
}
const char* Pool::kind_of_region(int id) const { return id >= 0 && (size_t)id < g_npool ? g_pool[id].kind : "?"; }
int Pool::index_of_region(int id) const { return id >= 0 && (size_t)id < g_npool ? g_pool[id].index : -1; }

}  // namespace h
