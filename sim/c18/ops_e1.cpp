#include "ops_diff.hpp"
using namespace smooth;
REG_DIFF(SO3d, SO3d);
REG_DIFF(SE2d, SE2d);
