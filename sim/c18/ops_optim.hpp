// Family F: independent minimize() calls (fresh MinimizeOptions per call) on task-private
// variables against shared const data.
#pragma once
#include "ops_common.hpp"
#include "smooth/optim.hpp"

namespace ops {

inline const char* const kOptimFn[] = {"align1_default", "align2_static", "align1_numerical_cb_disney", "curvefit_dynamic",
                                       "analytic_sparse3", "align2_dynamic_ret", "rosenbrock_rejected_steps", "stiff_group_small_radius",
                                       "reentrant_residual", "reentrant_callback"};
constexpr int kOptimNFn = sizeof(kOptimFn) / sizeof(kOptimFn[0]);

struct CurveData {
  std::vector<double> ts, ys;
};
inline CurveData* make_curve(In& in, int index) {
  auto* d = new CurveData;
  const double A = 1.0 + in.unit(), B = -0.5 - 0.5 * in.unit();
  const int n = 6 + index;
  for (int i = 0; i < n; ++i) {
    const double t = 0.3 * i;
    d->ts.push_back(t);
    d->ys.push_back(A * std::exp(B * t) + in.sym(0.01));
  }
  return d;
}
inline void digest_curve(const CurveData& d, Out& out) {
  for (double t : d.ts) out.f64(t);
  for (double y : d.ys) out.f64(y);
}

struct SparseFunctor3 {
  Eigen::Vector3d d23, d31;
  template<typename T>
  Eigen::VectorX<T> operator()(const smooth::SO3<T>& g1, const smooth::SO3<T>& g2, const smooth::SO3<T>& g3) const {
    Eigen::VectorX<T> f(9);
    f.template segment<3>(0) = g1.log();
    f.template segment<3>(3) = (g3 - g2) - d23;
    f.template segment<3>(6) = (g1 - g3) - d31;
    return f;
  }
  Eigen::SparseMatrix<double> jacobian(const smooth::SO3d& g1, const smooth::SO3d& g2, const smooth::SO3d& g3) const {
    const Eigen::Matrix3d a = smooth::SO3d::dr_expinv(g1.log());
    const Eigen::Matrix3d b3 = smooth::SO3d::dr_expinv(g3 - g2);
    const Eigen::Matrix3d b2 = -smooth::SO3d::dl_expinv(g3 - g2);
    const Eigen::Matrix3d c1 = smooth::SO3d::dr_expinv(g1 - g3);
    const Eigen::Matrix3d c3 = -smooth::SO3d::dl_expinv(g1 - g3);
    Eigen::SparseMatrix<double> J;
    J.resize(9, 9);
    for (int i = 0; i != 3; ++i)
      for (int j = 0; j != 3; ++j) {
        J.insert(i, j) = a(i, j);
        J.insert(3 + i, 3 + j) = b2(i, j);
        J.insert(3 + i, 6 + j) = b3(i, j);
        J.insert(6 + i, 6 + j) = c3(i, j);
        J.insert(6 + i, 0 + j) = c1(i, j);
      }
    J.makeCompressed();
    return J;
  }
};
inline SparseFunctor3* make_sf3(In& in, int) {
  return new SparseFunctor3{Eigen::Vector3d(in.sym(0.5), in.sym(0.5), in.sym(0.5)), Eigen::Vector3d(in.sym(0.5), in.sym(0.5), in.sym(0.5))};
}
inline void digest_sf3(const SparseFunctor3& f, Out& out) {
  put_mat(out, f.d23);
  put_mat(out, f.d31);
}

inline void put_result(Out& out, const smooth::SolveResult& r) {
  out.i64((int64_t)r.status);
  out.i64(r.iter);
  // r.time is wall-clock-derived reporting (simulated clock here); excluded from comparison
}

template<class G, class Tag>
struct OptimOps {
  using T = smooth::Tangent<G>;
  struct St {
    const G* a;
    const G* b;
    const CurveData* cd;
    const SparseFunctor3* sf;
  };
  static void prep(OpInst& op, Pool& pool) {
    auto* st = new St;
    st->a = &shared_elem<G>(pool, Tag::elem, (int)op.p[1]);
    st->b = &shared_elem<G>(pool, Tag::elem, (int)op.p[2]);
    st->cd = &h::pool_get<CurveData, &make_curve, &digest_curve>(pool, "optim.curve", (int)op.p[1]);
    st->sf = &h::pool_get<SparseFunctor3, &make_sf3, &digest_sf3>(pool, "optim.sf3", (int)op.p[2]);
    op.st = st;
  }
  static void run(OpInst& op, Out& out) {
    using smooth::diff::Type;
    const auto* st = static_cast<const St*>(op.st);
    const G& a = *st->a;
    const G& b = *st->b;
    OpInst* opp = &op;
    smooth::MinimizeOptions opts;  // fresh per call: strategy state is not shared
    opts.max_iter = 25;
    opts.verbose = (op.p[3] & 2) != 0 && (op.p[0] == 0 || op.p[0] == 5);  // progress output (stdout is /dev/null)
    switch (op.p[0]) {
      case 0: {
        G x = a;
        Out* outp = &out;
        const auto r = smooth::minimize<Type::Default>(
          [&b, opp](const auto& v) -> T { h::cb_tick(*opp); return smooth::rminus(v, b); }, smooth::wrt(x),
          [outp](const auto& xi) { put_elem(*outp, xi); }, opts);
        put_elem(out, x);
        put_result(out, r);
        break;
      }
      case 1: {
        G x1 = a, x2 = b;
        Out* outp = &out;
        const auto r = smooth::minimize<Type::Default>(
          [opp](const auto& v1, const auto& v2) {
            h::cb_tick(*opp);
            Eigen::Matrix<double, 3 * smooth::Dof<G>, 1> ret;
            ret << smooth::log(v1), smooth::log(v2), smooth::rminus(v1, v2) - T::Ones() * 0.1;
            return ret;
          },
          smooth::wrt(x1, x2), [outp](const auto& y1, const auto& y2) { put_elem(*outp, y1); put_elem(*outp, y2); }, opts);
        put_elem(out, x1);
        put_elem(out, x2);
        put_result(out, r);
        break;
      }
      case 2: {
        G x = a;
        opts.strat = std::make_shared<smooth::DisneyStrategy>();
        int ncb = 0;
        Out* outp = &out;
        // the whole iterate sequence is part of the result, not just the final point
        const auto r = smooth::minimize<Type::Numerical>(
          [&b, opp](const auto& v) -> T { h::cb_tick(*opp); return smooth::rminus(v, b); }, smooth::wrt(x),
          [&ncb, outp](const auto& xi) { ++ncb; put_elem(*outp, xi); }, opts);
        put_elem(out, x);
        put_result(out, r);
        out.i64(ncb);
        break;
      }
      case 3: {
        Eigen::VectorXd x(2);
        x << 1.0, -0.1;
        const CurveData& cd = *st->cd;
        opts.verbose = (op.p[3] & 1) != 0;  // the printing path (stdout goes to /dev/null in the harness)
        const auto r = smooth::minimize(
          [&cd, opp](const auto& v) -> Eigen::VectorXd {
            h::cb_tick(*opp);
            Eigen::VectorXd res(cd.ts.size());
            for (size_t i = 0; i < cd.ts.size(); ++i) res((Eigen::Index)i) = v(0) * std::exp(v(1) * cd.ts[i]) - cd.ys[i];
            return res;
          },
          smooth::wrt(x), opts);
        put_mat(out, x);
        put_result(out, r);
        break;
      }
      case 4: {
        smooth::SO3d g1 = smooth::SO3d::exp(Eigen::Vector3d(0.1, 0.2, 0.3)), g2 = smooth::SO3d::exp(Eigen::Vector3d(-0.2, 0.1, 0.0)),
                     g3 = smooth::SO3d::Identity();
        const auto r = smooth::minimize<Type::Analytic>(*st->sf, smooth::wrt(g1, g2, g3), opts);
        put_elem(out, g1);
        put_elem(out, g2);
        put_elem(out, g3);
        put_result(out, r);
        break;
      }
      case 5: {
        G x1 = a, x2 = b;
        const auto r = smooth::minimize(
          [opp](const auto& v1, const auto& v2) -> Eigen::VectorXd {
            h::cb_tick(*opp);
            Eigen::VectorXd ret(3 * smooth::Dof<G>);
            ret << smooth::log(v1), smooth::log(v2), smooth::rminus(v1, v2) - T::Ones() * 0.1;
            return ret;
          },
          smooth::wrt(x1, x2), opts);
        put_elem(out, x1);
        put_elem(out, x2);
        put_result(out, r);
        break;
      }
      case 6: {
        // a problem on which full Gauss-Newton steps are NOT acceptable: the trust region constrains the
        // step (the Levenberg parameter search of the linear solver runs) and steps get rejected
        Eigen::Vector2d x(-1.2 - 0.1 * (double)(op.p[3] & 3), 1.0);
        Out* outp = &out;
        opts.max_iter = 40;
        if (op.p[3] & 4) opts.strat = std::make_shared<smooth::DisneyStrategy>();
        const auto r = smooth::minimize<Type::Default>(
          [opp](const auto& v) -> Eigen::Vector2d {
            h::cb_tick(*opp);
            return Eigen::Vector2d(10.0 * (v(1) - v(0) * v(0)), 1.0 - v(0));
          },
          smooth::wrt(x), [outp](const auto& xi) { put_mat(*outp, xi); }, opts);
        put_mat(out, x);
        put_result(out, r);
        break;
      }
      case 7: {
        // strongly nonlinear residual on the group, far initial guess
        G x = a;
        Out* outp = &out;
        opts.max_iter = 30;
        const auto r = smooth::minimize<Type::Numerical>(
          [&b, opp](const auto& v) -> Eigen::Matrix<double, smooth::Dof<G> + 1, 1> {
            h::cb_tick(*opp);
            const T e = smooth::rminus(v, b);
            Eigen::Matrix<double, smooth::Dof<G> + 1, 1> ret;
            ret.template head<smooth::Dof<G>>() = e.array() * (1.0 + 25.0 * e.array().square());
            ret(smooth::Dof<G>) = 5.0 * std::sin(3.0 * e.sum());
            return ret;
          },
          smooth::wrt(x), [outp](const auto& xi) { put_elem(*outp, xi); }, opts);
        put_elem(out, x);
        put_result(out, r);
        break;
      }
      case 8: {
        // RE-ENTRANCY: the residual of a (dynamically sized) solve runs a complete solve of its own
        const CurveData& cd = *st->cd;
        Eigen::VectorXd x(2);
        x << 0.8, -0.2;
        opts.max_iter = 8;
        const auto r = smooth::minimize(
          [&cd, opp](const auto& v) -> Eigen::VectorXd {
            h::cb_tick(*opp);
            // inner problem: scale s minimising || s * exp(v1 t) - y ||
            Eigen::VectorXd sc(1);
            sc << 1.0;
            smooth::MinimizeOptions iopts;
            iopts.max_iter = 4;
            const double v1 = v(1);
            smooth::minimize(
              [&cd, v1](const auto& s) -> Eigen::VectorXd {
                Eigen::VectorXd res(cd.ts.size());
                for (size_t i = 0; i < cd.ts.size(); ++i) res((Eigen::Index)i) = s(0) * std::exp(v1 * cd.ts[i]) - cd.ys[i];
                return res;
              },
              smooth::wrt(sc), iopts);
            Eigen::VectorXd res(cd.ts.size() + 1);
            for (size_t i = 0; i < cd.ts.size(); ++i) res((Eigen::Index)i) = v(0) * std::exp(v(1) * cd.ts[i]) - cd.ys[i];
            res((Eigen::Index)cd.ts.size()) = 0.1 * (v(0) - sc(0));
            return res;
          },
          smooth::wrt(x), opts);
        put_mat(out, x);
        put_result(out, r);
        break;
      }
      case 9: {
        // RE-ENTRANCY through the per-iteration callback: it runs another solve and records its result
        const CurveData& cd = *st->cd;
        Eigen::VectorXd x(2);
        x << 1.1, -0.05;
        Out* outp = &out;
        opts.max_iter = 8;
        const auto r = smooth::minimize<Type::Default>(
          [&cd, opp](const auto& v) -> Eigen::VectorXd {
            h::cb_tick(*opp);
            Eigen::VectorXd res(cd.ts.size());
            for (size_t i = 0; i < cd.ts.size(); ++i) res((Eigen::Index)i) = v(0) * std::exp(v(1) * cd.ts[i]) - cd.ys[i];
            return res;
          },
          smooth::wrt(x),
          [&a, &b, outp](const auto& xi) {
            put_mat(*outp, xi);
            G y = a;
            smooth::MinimizeOptions iopts;
            iopts.max_iter = 3;
            const G ref = b;
            smooth::minimize([&ref](const auto& w) -> Eigen::VectorXd { return smooth::rminus(w, ref) * (1.0 + 0.0); }, smooth::wrt(y), iopts);
            put_elem(*outp, y);
          },
          opts);
        put_mat(out, x);
        put_result(out, r);
        break;
      }
      default: out.tag("?"); break;
    }
  }
  static constexpr OpDef def = {Tag::lie, "F", kOptimNFn, kOptimFn, 3, 6, 1, 1, &prep, &run};
};

#define OPS_TAG4(NAME, BASE)                              \
  struct Tag_##NAME {                                     \
    static constexpr const char* elem = "elem." #BASE;    \
    static constexpr const char* lie = "minimize." #BASE; \
  }
#define REG_OPTIM(G, BASE)     \
  OPS_TAG4(Optim##BASE, BASE); \
  static ::ops::Registrar reg_optim_##BASE(&::ops::OptimOps<G, Tag_Optim##BASE>::def)

}  // namespace ops
