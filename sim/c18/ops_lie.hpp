// Family A: group and tangent functions on shared const elements.
#pragma once
#include "ops_common.hpp"
#include "smooth/derivatives.hpp"

namespace ops {

template<class G>
struct LieSt {
  const G* a;
  const G* b;
  const smooth::Tangent<G>* ta;
  const smooth::Tangent<G>* tb;
};

inline const char* const kLieFn[] = {
  "composition", "inverse", "log", "Ad", "exp", "ad", "dr_exp", "dr_expinv", "dl_exp", "dl_expinv",
  "d2r_exp", "d2r_expinv", "rplus", "rminus", "lplus", "lminus", "isApprox", "cast", "dr_rminus",
  "d2r_rminus", "dr_rminus_sqnorm", "d2r_rminus_sqnorm", "member_basic", "member_matrix_hat_vee",
  "member_bracket", "member_specific", "via_const_map", "composition3", "d2l_exp", "d2l_expinv", "value_stream"};
constexpr int kLieNFn = sizeof(kLieFn) / sizeof(kLieFn[0]);

// Galilei and SE_K_3 ship no second-order derivatives (their Impl has no d2r_exp / d2r_expinv)
template<class G>
struct NoD2 : std::false_type {};
template<class S>
struct NoD2<smooth::Galilei<S>> : std::true_type {};
template<class S, int K>
struct NoD2<smooth::SE_K_3<S, K>> : std::true_type {};
template<class... Gs>
struct NoD2<smooth::Bundle<Gs...>> : std::bool_constant<(NoD2<Gs>::value || ...)> {};
template<class G>
constexpr bool has_d2 = !NoD2<G>::value;

template<class G>
constexpr bool is_native = requires(const G& g) { g.coeffs(); g.matrix(); };

// type-specific const members, exercised through whatever the type offers
template<class G>
inline void member_specific(Out& out, const G& g, const smooth::Tangent<G>& ta) {
  using S = smooth::Scalar<G>;
  if constexpr (requires { g.quat(); }) {
    put_mat(out, g.quat().coeffs());
    put_mat(out, g.eulerAngles());
    put_mat(out, g * Eigen::Matrix<S, 3, 1>(S(1), S(2), S(3)));
    put_mat(out, g.dr_action(Eigen::Matrix<S, 3, 1>(S(1), S(2), S(3))));
    put_elem(out, g.project_so2());
  }
  if constexpr (requires { g.angle(); g.unit_complex(); }) {
    put_scalar(out, g.angle());
    put_scalar(out, g.angle_cw());
    put_scalar(out, g.angle_ccw());
    put_mat(out, g.unit_complex());
    put_mat(out, g * Eigen::Matrix<S, 2, 1>(S(1), S(2)));
    put_mat(out, g.dr_action(Eigen::Matrix<S, 2, 1>(S(1), S(2))));
    put_elem(out, g.lift_so3());
  }
  if constexpr (requires { g.so2(); g.r2(); }) {
    put_elem(out, smooth::SO2<S>(g.so2()));
    put_mat(out, g.r2());
    put_mat(out, g * Eigen::Matrix<S, 2, 1>(S(1), S(2)));
    put_mat(out, g.dr_action(Eigen::Matrix<S, 2, 1>(S(1), S(2))));
    put_elem(out, g.lift_se3());
    put_mat(out, g.isometry().matrix());
  }
  if constexpr (requires { g.so3(); g.r3(); g.project_se2(); }) {
    put_elem(out, smooth::SO3<S>(g.so3()));
    put_mat(out, g.r3());
    put_mat(out, g * Eigen::Matrix<S, 3, 1>(S(1), S(2), S(3)));
    put_mat(out, g.dr_action(Eigen::Matrix<S, 3, 1>(S(1), S(2), S(3))));
    put_elem(out, g.project_se2());
    put_mat(out, g.isometry().matrix());
  }
  if constexpr (requires { g.r3_v(); g.r3_p(); g.r1_t(); }) {
    put_elem(out, smooth::SO3<S>(g.so3()));
    put_mat(out, g.r3_v());
    put_mat(out, g.r3_p());
    put_mat(out, g.r1_t());
    put_mat(out, g * Eigen::Matrix<S, 4, 1>(S(1), S(2), S(3), S(0.5)));
    put_mat(out, g.dr_action(Eigen::Matrix<S, 4, 1>(S(1), S(2), S(3), S(0.5))));
  }
  if constexpr (requires { g.template r3<0>(); g.r3(1); }) {
    put_elem(out, smooth::SO3<S>(g.so3()));
    put_mat(out, g.template r3<0>());
    put_mat(out, g.r3(1));
  }
  if constexpr (requires { g.scaling(); g.c1(); }) {
    put_scalar(out, g.angle());
    put_scalar(out, g.scaling());
    put_elem(out, g.so2());
    put_mat(out, g * Eigen::Matrix<S, 2, 1>(S(1), S(2)));
  }
  if constexpr (requires { g.template part<0>(); }) {
    put_elem(out, typename G::template PartType<0>(g.template part<0>()));
    if constexpr (G::BundleSize > 1) { put_elem(out, typename G::template PartType<1>(g.template part<1>())); }
    if constexpr (G::BundleSize > 2) { put_elem(out, typename G::template PartType<2>(g.template part<2>())); }
  }
  (void)ta;
}

template<class G, class Tag>
struct LieOps {
  using T = smooth::Tangent<G>;
  using S = smooth::Scalar<G>;

  static void prep(OpInst& op, Pool& pool) {
    auto* st = new LieSt<G>;
    st->a = &shared_elem<G>(pool, Tag::elem, (int)op.p[1]);
    st->b = &shared_elem<G>(pool, Tag::elem, (int)op.p[2]);
    st->ta = &shared_tan<G>(pool, Tag::tan, (int)op.p[1]);
    st->tb = &shared_tan<G>(pool, Tag::tan, (int)op.p[2]);
    op.st = st;
  }

  static void run(OpInst& op, Out& out) {
    const auto* st = static_cast<const LieSt<G>*>(op.st);
    const G& a = *st->a;
    const G& b = *st->b;
    const T& ta = *st->ta;
    const T& tb = *st->tb;
    switch (op.p[0]) {
      case 0: put_elem(out, smooth::composition(a, b)); break;
      case 1: put_elem(out, smooth::inverse(a)); break;
      case 2: put_mat(out, smooth::log(a)); break;
      case 3: put_mat(out, smooth::Ad(a)); break;
      case 4: put_elem(out, smooth::exp<G>(ta)); break;
      case 5: put_mat(out, smooth::ad<G>(ta)); break;
      case 6: put_mat(out, smooth::dr_exp<G>(ta)); break;
      case 7: put_mat(out, smooth::dr_expinv<G>(ta)); break;
      case 8: put_mat(out, smooth::dl_exp<G>(ta)); break;
      case 9: put_mat(out, smooth::dl_expinv<G>(ta)); break;
      case 10:
        if constexpr (has_d2<G>) put_mat(out, smooth::d2r_exp<G>(ta));
        else out.tag("n/a");
        break;
      case 11:
        if constexpr (has_d2<G>) put_mat(out, smooth::d2r_expinv<G>(ta));
        else out.tag("n/a");
        break;
      case 12: put_elem(out, smooth::rplus(a, tb)); break;
      case 13: put_mat(out, smooth::rminus(a, b)); break;
      case 14: put_elem(out, smooth::lplus(a, tb)); break;
      case 15: put_mat(out, smooth::lminus(a, b)); break;
      case 16:
        out.i64(smooth::isApprox(a, b));
        out.i64(smooth::isApprox(a, a));
        break;
      case 17:
        if constexpr (std::is_same_v<S, double>) put_elem(out, smooth::cast<float>(a));
        else put_elem(out, smooth::cast<double>(a));
        break;
      case 18:
        if constexpr (smooth::Dof<G> > 0) put_mat(out, smooth::dr_rminus<G>(ta));
        else out.tag("n/a");
        break;
      case 19:
        if constexpr (smooth::Dof<G> > 0 && has_d2<G>) put_mat(out, smooth::d2r_rminus<G>(ta));
        else out.tag("n/a");
        break;
      case 20:
        if constexpr (smooth::Dof<G> > 0) put_mat(out, smooth::dr_rminus_squarednorm<G>(ta));
        else out.tag("n/a");
        break;
      case 21:
        if constexpr (smooth::Dof<G> > 0 && has_d2<G>) put_mat(out, smooth::d2r_rminus_squarednorm<G>(ta));
        else out.tag("n/a");
        break;
      case 22:
        if constexpr (is_native<G>) {
          put_elem(out, a * b);
          put_elem(out, a.inverse());
          put_mat(out, a.log());
          put_mat(out, a.Ad());
          put_elem(out, a + tb);
          put_mat(out, a - b);
          out.i64(a.isApprox(b));
          out.i64(a.dof());
        } else {
          out.tag("n/a");
        }
        break;
      case 23:
        if constexpr (is_native<G>) {
          put_mat(out, a.matrix());
          const auto H = G::hat(ta);
          put_mat(out, H);
          put_mat(out, G::vee(H));
        } else {
          out.tag("n/a");
        }
        break;
      case 24:
        if constexpr (is_native<G>) {
          put_mat(out, G::lie_bracket(ta, tb));
          put_mat(out, G::ad(ta));
          put_mat(out, G::dr_exp(ta));
          put_mat(out, G::dr_expinv(tb));
        } else {
          out.tag("n/a");
        }
        break;
      case 25:
        if constexpr (is_native<G>) member_specific(out, a, ta);
        else out.tag("n/a");
        break;
      case 26:
        if constexpr (is_native<G>) {
          // const views over the shared elements' own storage
          smooth::Map<const G> ma(a.data());
          smooth::Map<const G> mb(b.data());
          put_elem(out, ma * mb);
          put_elem(out, ma.inverse());
          put_mat(out, ma.log());
          put_mat(out, ma.Ad());
          put_mat(out, ma - mb);
          put_elem(out, G(ma));
        } else {
          out.tag("n/a");
        }
        break;
      case 27: put_elem(out, smooth::composition(a, b, a)); break;
      case 28:
        if constexpr (has_d2<G>) put_mat(out, smooth::d2l_exp<G>(ta));
        else out.tag("n/a");
        break;
      case 29:
        if constexpr (has_d2<G>) put_mat(out, smooth::d2l_expinv<G>(ta));
        else out.tag("n/a");
        break;
      case 30: {
        // VOLUME of distinct argument values: 32 task-private tangents per call (different in every
        // call and every thread) pushed through the basic functions together with the shared
        // operands - a table keyed by argument values grows, rehashes and evicts under this
        In in{h::mix64(op.salt ^ (0x9e37ull * (uint64_t)(op.iter + 1)))};
        for (int j = 0; j < 32; ++j) {
          const T t = make_tan<G>(in, j);
          const G x = smooth::composition(a, smooth::exp<G>(t));
          put_elem(out, x);
          put_mat(out, smooth::log(x));
          put_mat(out, smooth::rminus(x, b));
          if ((j & 3) == 0) put_mat(out, smooth::Ad(x));
          if ((j & 3) == 1) put_mat(out, smooth::dr_exp<G>(t));
          if ((j & 3) == 2) put_mat(out, smooth::dr_expinv<G>(t));
          if ((j & 3) == 3) put_elem(out, smooth::inverse(x));
        }
        break;
      }
      default: out.tag("?"); break;
    }
  }

  static constexpr OpDef def = {Tag::lie, "A", kLieNFn, kLieFn, 10, 10, 0, 0, &prep, &run};
};

#define REG_LIE(G, NAME)  \
  OPS_TAG(NAME);          \
  static ::ops::Registrar reg_lie_##NAME(&::ops::LieOps<G, Tag_##NAME>::def)

}  // namespace ops
