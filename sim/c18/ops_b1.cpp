#include "ops_man.hpp"
using namespace smooth;
using VecSO3 = std::vector<SO3d>;
using VecSE2 = std::vector<SE2d>;
using Var3 = std::variant<Eigen::Vector2d, SE2d, SO3d>;
using SubSO3 = SubManifold<SO3d>;
using SubSE3 = SubManifold<SE3d>;
using SubBun = SubManifold<Bundle<SO3d, Eigen::Vector3d>>;
REG_MAN(VecSO3, VecSO3);
REG_MAN(VecSE2, VecSE2);
REG_MAN(Var3, Var3);
REG_MAN(SubSO3, SubSO3);
REG_MAN(SubSE3, SubSE3);
REG_MAN(SubBun, SubBun);
REG_MAN(ops::AnyOf<ops::PlainG<SO3d>>, AnySO3);
REG_MAN(ops::AnyOf<ops::PlainG<SE2d>>, AnySE2);
REG_MAN(ops::AnyOf<SubSO3>, AnySubSO3);
REG_MAN(ops::AnyOf<VecSO3>, AnyVecSO3);
using VecSO3L = ops::VecN<SO3d, 9>;
using VecR2 = ops::VecN<Eigen::Vector2d, 1>;
REG_MAN(VecSO3L, VecSO3L);
REG_MAN(VecR2, VecR2);
using VecRX = ops::VecN<Eigen::VectorXd, 3>;
using VecVec = ops::VecN<std::vector<SO3d>, 2>;
using VecVar = ops::VecN<std::variant<Eigen::Vector2d, SE2d, SO3d>, 3>;
REG_MAN(VecRX, VecRX);
REG_MAN(VecVec, VecVec);
REG_MAN(VecVar, VecVar);
REG_MAN(ops::AnyOf<VecRX>, AnyVecRX);
// the harness builds a variant holding its LAST alternative: two more orders of the same
// alternatives, so that the visitors run for every alternative type
using Var3b = std::variant<SO3d, Eigen::Vector2d, SE2d>;
using Var3c = std::variant<SE2d, SO3d, Eigen::Vector2d>;
REG_MAN(Var3b, Var3b);
REG_MAN(Var3c, Var3c);
