#include "ops_man.hpp"
using namespace smooth;
using VecSO3 = std::vector<SO3d>;
using VecSE2 = std::vector<SE2d>;
using Var3 = std::variant<Eigen::Vector2d, SE2d, SO3d>;
using SubSO3 = SubManifold<SO3d>;
using SubSE3 = SubManifold<SE3d>;
using SubBun = SubManifold<Bundle<SO3d, Eigen::Vector3d>>;
REG_MAN(VecSO3, VecSO3);
REG_MAN(VecSE2, VecSE2);
REG_MAN(Var3, Var3);
REG_MAN(SubSO3, SubSO3);
REG_MAN(SubSE3, SubSE3);
REG_MAN(SubBun, SubBun);
REG_MAN(ops::AnyOf<ops::PlainG<SO3d>>, AnySO3);
REG_MAN(ops::AnyOf<ops::PlainG<SE2d>>, AnySE2);
REG_MAN(ops::AnyOf<SubSO3>, AnySubSO3);
REG_MAN(ops::AnyOf<VecSO3>, AnyVecSO3);
