// Family C: Spline / BSpline evaluation and the cumulative-spline kernels on shared const curves.
#pragma once
#include "ops_common.hpp"
#include "smooth/spline/bspline.hpp"
#include "smooth/spline/cumulative_spline.hpp"
#include "smooth/spline/reparameterize.hpp"
#include "smooth/spline/spline.hpp"

namespace ops {

// evaluation instants: knots, interior points, out of range
inline double pick_t(double tmin, double tmax, int64_t sel, uint64_t salt) {
  static constexpr double frac[] = {0.0, 1.0, 0.5, 0.25, 0.8, -0.3, 1.3, 0.999999};
  In in{salt};
  double f = frac[sel & 7];
  if ((sel & 7) >= 2 && (sel & 7) <= 4) f += in.sym(0.1);
  return tmin + f * (tmax - tmin);
}

// ---- Spline<K,G> -------------------------------------------------------------------------------
template<int K, class G>
struct SplineIO {
  using Sp = smooth::Spline<K, G>;
  static Sp* make(In& in, int index) {
    auto seg = [&in](const G& ga) {
      Eigen::Matrix<double, smooth::Dof<G>, K> V;
      for (int r = 0; r < V.rows(); ++r)
        for (int c = 0; c < V.cols(); ++c) V(r, c) = in.sym(0.4);
      return Sp(0.5 + in.unit(), V, ga);
    };
    auto* sp = new Sp(seg(make_elem<G>(in, 0)));
    // sizes matter: thresholds ("only for long splines") hide behind small fixtures.  Objects 4 and 5
    // are long curves (33 and 48 segments), 0..3 short ones.
    int nseg = index == 4 ? 32 : index == 5 ? 47 : 1 + index % 3;
    for (int i = 0; i < nseg; ++i) {
      if (i % 2 == 0) *sp += seg(smooth::Identity<G>());
      else sp->concat_global(seg(sp->end()));
    }
    if (index % 4 == 3) {
      // a cropped curve: non-trivial per-segment reparameterisation
      Sp c = sp->crop(0.2 * sp->t_max(), 0.9 * sp->t_max(), false);
      *sp = c;
    }
    if (index % 4 == 2) {
      // several segments that each start inside a cropped-away part (pieces cropped separately,
      // then concatenated), followed by an uncropped one
      Sp a = seg(make_elem<G>(in, 0)), b = seg(smooth::Identity<G>()), c = seg(smooth::Identity<G>());
      Sp r = a.crop(0.3 * a.t_max(), 0.9 * a.t_max());
      r += b.crop(0.4 * b.t_max(), b.t_max());
      r += c.crop(0.1 * c.t_max(), 0.8 * c.t_max());
      r += seg(smooth::Identity<G>());
      *sp = r;
    }
    return sp;
  }
  static void digest(const Sp& sp, Out& out) {
    out.f64(sp.t_min());
    out.f64(sp.t_max());
    out.i64((int64_t)sp.size());
    put_elem(out, sp.start());
    put_elem(out, sp.end());
    // the whole curve is the observable state: sample every part of it, both ends included
    for (int i = 0; i <= 8; ++i) {
      smooth::Tangent<G> v, a;
      put_elem(out, sp(sp.t_max() * i / 8.0, v, a));
      put_mat(out, v);
      put_mat(out, a);
    }
  }
};

inline const char* const kSplineFn[] = {"eval", "eval_vel", "eval_vel_acc", "crop", "arclength", "info", "copy_concat",
                                        "eval_many", "crop_degenerate", "arclength_many", "reparameterize", "factories"};
constexpr int kSplineNFn = sizeof(kSplineFn) / sizeof(kSplineFn[0]);

template<int K, class G, class Tag>
struct SplineOps {
  using Sp = smooth::Spline<K, G>;
  using T = smooth::Tangent<G>;
  struct St {
    const Sp* a;
    const Sp* b;
  };
  static void prep(OpInst& op, Pool& pool) {
    auto* st = new St;
    st->a = &h::pool_get<Sp, &SplineIO<K, G>::make, &SplineIO<K, G>::digest>(pool, Tag::elem, (int)op.p[1]);
    st->b = &h::pool_get<Sp, &SplineIO<K, G>::make, &SplineIO<K, G>::digest>(pool, Tag::elem, (int)op.p[2]);
    op.st = st;
  }
  static void put_spline(Out& out, const Sp& sp) { SplineIO<K, G>::digest(sp, out); }
  static void run(OpInst& op, Out& out) {
    const auto* st = static_cast<const St*>(op.st);
    const Sp& sp = *st->a;
    const double t = pick_t(sp.t_min(), sp.t_max(), op.p[2] + op.p[3], op.salt);
    switch (op.p[0]) {
      case 0: put_elem(out, sp(t)); break;
      case 1: {
        T v;
        put_elem(out, sp(t, v));
        put_mat(out, v);
        break;
      }
      case 2: {
        T v, a;
        put_elem(out, sp(t, v, a));
        put_mat(out, v);
        put_mat(out, a);
        break;
      }
      case 3: {
        const double ta = 0.5 * t, tb = t + 0.3 * (sp.t_max() - t);
        put_spline(out, sp.crop(ta, tb, (op.p[3] & 1) != 0));
        break;
      }
      case 4:
        if constexpr (K == 3) put_mat(out, sp.arclength(t));
        else out.tag("n/a");
        break;
      case 5:
        out.f64(sp.t_min());
        out.f64(sp.t_max());
        out.i64((int64_t)sp.size());
        out.i64(sp.empty());
        put_elem(out, sp.start());
        put_elem(out, sp.end());
        break;
      case 6: {
        Sp c(sp);
        c += *st->b;
        Sp d(*st->b);
        d.concat_global(sp);
        put_spline(out, c);
        put_spline(out, d);
        break;
      }
      case 7: {
        // different times in every repetition of the call; p[3] bit 2: a long stream of distinct times
        In in{op.salt + 0x9e3779b97f4a7c15ull * (uint64_t)op.iter};
        const int n_eval = (op.p[3] & 4) ? 40 : 6;
        for (int i = 0; i < n_eval; ++i) {
          T v, a;
          const double ti = sp.t_min() + in.unit() * (sp.t_max() - sp.t_min());
          put_elem(out, sp(ti, v, a));
          put_mat(out, v);
          put_mat(out, a);
        }
        break;
      }
      case 8:
        // empty and out-of-range crops
        put_spline(out, sp.crop(t, t));
        put_spline(out, sp.crop(sp.t_max() + 1.0, sp.t_max() + 2.0));
        put_spline(out, sp.crop(-2.0, -1.0));
        put_spline(out, sp.crop(0.0, sp.t_max() + 5.0, false));
        break;
      case 9:
        if constexpr (K == 3) {
          In in{op.salt};
          for (int i = 0; i < 5; ++i) put_mat(out, sp.arclength(sp.t_min() + in.unit() * (sp.t_max() - sp.t_min())));
        } else {
          out.tag("n/a");
        }
        break;
      case 11: {
        // static factory functions, fed from shared const end points
        const G ga = sp.start(), gb = sp.end();
        put_spline(out, Sp::ConstantVelocityGoal(gb, 1.5, ga));
        put_spline(out, Sp::ConstantVelocity(smooth::rminus(gb, ga), 0.7, ga));
        if constexpr (K == 3) { put_spline(out, Sp::FixedCubic(gb, T::Constant(0.1), T::Constant(-0.2), 2.0, ga)); }
        Sp e;  // default: empty spline at identity
        put_spline(out, e);
        break;
      }
      case 10: {
        // time scaling under velocity / acceleration bounds: one LP per sample, sized by Dof<G>
        const T vmax = T::Constant(1.0), amax = T::Constant(1.5);
        const auto sc = smooth::reparameterize_spline(sp, -vmax, vmax, -amax, amax, 1, 1, 10);
        out.f64(sc.t_max());
        for (int i = 0; i <= 6; ++i) {
          Eigen::Matrix<double, 1, 1> ds, d2s;
          out.f64(sc(sc.t_max() * i / 6.0, ds, d2s));
          out.f64(ds(0));
          out.f64(d2s(0));
        }
        break;
      }
      default: out.tag("?"); break;
    }
  }
  static constexpr OpDef def = {Tag::lie, "C", kSplineNFn, kSplineFn, 6, 12, 0, 0, &prep, &run};
};

// ---- BSpline<K,G> ------------------------------------------------------------------------------
template<int K, class G>
struct BSplineIO {
  using Bs = smooth::BSpline<K, G>;
  static Bs* make(In& in, int index) {
    std::vector<G> cp;
    const int n = index == 3 ? 40 : K + 2 + index * 2;
    G g = make_elem<G>(in, 0);
    for (int i = 0; i < n; ++i) {
      cp.push_back(g);
      g = smooth::rplus(g, make_tan<G>(in, 3));
    }
    return new Bs(in.sym(1.0), 0.3 + in.unit(), cp);
  }
  static void digest(const Bs& bs, Out& out) {
    out.f64(bs.dt());
    out.f64(bs.t_min());
    out.f64(bs.t_max());
    out.i64((int64_t)bs.ctrl_pts().size());
    for (const auto& g : bs.ctrl_pts()) put_elem(out, g);
  }
};

inline const char* const kBSplineFn[] = {"eval", "eval_vel", "eval_vel_acc", "info", "copy_eval", "eval_many"};
constexpr int kBSplineNFn = sizeof(kBSplineFn) / sizeof(kBSplineFn[0]);

template<int K, class G, class Tag>
struct BSplineOps {
  using Bs = smooth::BSpline<K, G>;
  using T = smooth::Tangent<G>;
  struct St {
    const Bs* a;
  };
  static void prep(OpInst& op, Pool& pool) {
    auto* st = new St;
    st->a = &h::pool_get<Bs, &BSplineIO<K, G>::make, &BSplineIO<K, G>::digest>(pool, Tag::elem, (int)op.p[1]);
    op.st = st;
  }
  static void run(OpInst& op, Out& out) {
    const auto* st = static_cast<const St*>(op.st);
    const Bs& bs = *st->a;
    const double t = pick_t(bs.t_min(), bs.t_max(), op.p[2] + op.p[3], op.salt);
    switch (op.p[0]) {
      case 0: put_elem(out, bs(t)); break;
      case 1: {
        T v;
        put_elem(out, bs(t, v));
        put_mat(out, v);
        break;
      }
      case 2: {
        T v, a;
        put_elem(out, bs(t, v, a));
        put_mat(out, v);
        put_mat(out, a);
        break;
      }
      case 3:
        out.f64(bs.dt());
        out.f64(bs.t_min());
        out.f64(bs.t_max());
        out.i64((int64_t)bs.ctrl_pts().size());
        break;
      case 4: {
        const Bs c(bs);
        T v;
        put_elem(out, c(t, v));
        put_mat(out, v);
        break;
      }
      case 5: {
        In in{op.salt + 0x9e3779b97f4a7c15ull * (uint64_t)op.iter};
        const int n_eval = (op.p[3] & 4) ? 40 : 6;
        for (int i = 0; i < n_eval; ++i) {
          T v, a;
          const double ti = bs.t_min() + (in.unit() * 1.2 - 0.1) * (bs.t_max() - bs.t_min());
          put_elem(out, bs(ti, v, a));
          put_mat(out, v);
          put_mat(out, a);
        }
        break;
      }
      default: out.tag("?"); break;
    }
  }
  static constexpr OpDef def = {Tag::lie, "C", kBSplineNFn, kBSplineFn, 4, 12, 0, 0, &prep, &run};
};

// ---- cumulative spline kernels -------------------------------------------------------------------
template<int K, class G>
struct CsplIO {
  struct Data {
    Eigen::Matrix<double, smooth::Dof<G>, K> V;
    std::vector<G> gs;
  };
  static Data* make(In& in, int index) {
    auto* d = new Data;
    for (int r = 0; r < d->V.rows(); ++r)
      for (int c = 0; c < d->V.cols(); ++c) d->V(r, c) = in.sym(index == 1 ? 1e-6 : 0.5);
    G g = make_elem<G>(in, index);
    for (int i = 0; i < K + 1; ++i) {
      d->gs.push_back(g);
      g = smooth::rplus(g, make_tan<G>(in, 3));
    }
    return d;
  }
  static void digest(const Data& d, Out& out) {
    put_mat(out, d.V);
    for (const auto& g : d.gs) put_elem(out, g);
  }
};

inline const char* const kCsplFn[] = {"eval_vs", "eval_vs_derivs", "dg_dvs", "eval_gs", "eval_gs_derivs", "dg_dgs"};
constexpr int kCsplNFn = sizeof(kCsplFn) / sizeof(kCsplFn[0]);

template<int K, class G, class Tag>
struct CsplOps {
  using Data = typename CsplIO<K, G>::Data;
  using T = smooth::Tangent<G>;
  struct St {
    const Data* d;
  };
  static void prep(OpInst& op, Pool& pool) {
    auto* st = new St;
    st->d = &h::pool_get<Data, &CsplIO<K, G>::make, &CsplIO<K, G>::digest>(pool, Tag::elem, (int)op.p[1]);
    op.st = st;
  }
  static void run(OpInst& op, Out& out) {
    const auto* st = static_cast<const St*>(op.st);
    const Data& d = *st->d;
    static constexpr double us[] = {0.0, 1.0, 0.5, 0.123};
    const double u = us[(op.p[2] + op.p[3]) & 3];
    // cumulative Bernstein basis from the public polynomial API (not from the library's internal
    // mapped copy, which a refactor may rename or remove)
    static constexpr auto kB = smooth::polynomial_cumulative_basis<smooth::PolynomialBasis::Bernstein, K, double>();
    const Eigen::Matrix<double, K + 1, K + 1> B =
      Eigen::Map<const Eigen::Matrix<double, K + 1, K + 1, Eigen::RowMajor>>(kB[0].data());
    switch (op.p[0]) {
      case 0: put_elem(out, smooth::cspline_eval_vs<K, G>(d.V.colwise(), B, u)); break;
      case 1: {
        T v, a, j;
        put_elem(out, smooth::cspline_eval_vs<K, G>(d.V.colwise(), B, u, v, a, j));
        put_mat(out, v);
        put_mat(out, a);
        put_mat(out, j);
        break;
      }
      case 2: {
        smooth::SplineJacobian<G, K - 1> dv, da;
        put_mat(out, smooth::cspline_eval_dg_dvs<K, G>(d.V.colwise(), B, u, dv, da));
        put_mat(out, dv);
        put_mat(out, da);
        break;
      }
      case 3: put_elem(out, smooth::cspline_eval_gs<K>(d.gs, B, u)); break;
      case 4: {
        T v, a, j;
        put_elem(out, smooth::cspline_eval_gs<K>(d.gs, B, u, v, a, j));
        put_mat(out, v);
        put_mat(out, a);
        put_mat(out, j);
        break;
      }
      case 5: {
        smooth::SplineJacobian<G, K> dv, da;
        put_mat(out, smooth::cspline_eval_dg_dgs<K>(d.gs, B, u, dv, da));
        put_mat(out, dv);
        put_mat(out, da);
        break;
      }
      default: out.tag("?"); break;
    }
  }
  static constexpr OpDef def = {Tag::lie, "C", kCsplNFn, kCsplFn, 3, 8, 0, 0, &prep, &run};
};

#define OPS_TAG2(NAME, PFX)                                 \
  struct Tag_##NAME {                                       \
    static constexpr const char* elem = PFX ".obj." #NAME;  \
    static constexpr const char* lie = PFX "." #NAME;       \
  }

#define REG_SPLINE(K, G, NAME) \
  OPS_TAG2(NAME, "spline");    \
  static ::ops::Registrar reg_spline_##NAME(&::ops::SplineOps<K, G, Tag_##NAME>::def)
#define REG_BSPLINE(K, G, NAME) \
  OPS_TAG2(NAME, "bspline");    \
  static ::ops::Registrar reg_bspline_##NAME(&::ops::BSplineOps<K, G, Tag_##NAME>::def)
#define REG_CSPL(K, G, NAME) \
  OPS_TAG2(NAME, "cspl");    \
  static ::ops::Registrar reg_cspl_##NAME(&::ops::CsplOps<K, G, Tag_##NAME>::def)

}  // namespace ops
