#include "ops_lie.hpp"
using BunGf = smooth::Bundle<smooth::Galileif, Eigen::Vector2f, smooth::SO2f>;
REG_LIE(smooth::Galileif, Galileif);
REG_LIE(smooth::SO2f, SO2f);
REG_LIE(BunGf, BunGf);
