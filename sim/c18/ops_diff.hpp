// Family E: diff::dr on shared const arguments (passed as const references: non-const references
// are perturbed in place by design) and task-private non-const arguments.
#pragma once
#include "ops_common.hpp"
#include "smooth/diff.hpp"

namespace ops {

inline const char* const kDiffFn[] = {"dr1_num_rminus", "dr1_num_compose2", "dr2_num_sqnorm", "dr1_default",
                                      "dr1_analytic", "dr2_analytic", "dr1_num_subset", "dr1_num_mixed_private",
                                      "dr0_value", "dr1_num_exp", "dr2_num_two_args", "dr2_num_three_args", "dr2_default_two_args"};
constexpr int kDiffNFn = sizeof(kDiffFn) / sizeof(kDiffFn[0]);

// functor with hand-coded derivatives; shared between tasks as a const object
template<class G>
struct AnalyticRminus {
  G ref;
  smooth::Tangent<G> operator()(const G& g) const { return smooth::rminus(g, ref); }
  smooth::TangentMap<G> jacobian(const G& g) const { return smooth::dr_expinv<G>(smooth::rminus(g, ref)); }
  smooth::Hessian<G> hessian(const G& g) const { return smooth::d2r_expinv<G>(smooth::rminus(g, ref)); }
};

template<class G>
AnalyticRminus<G>* make_functor(In& in, int index) {
  return new AnalyticRminus<G>{make_elem<G>(in, index)};
}
template<class G>
void digest_functor(const AnalyticRminus<G>& f, Out& out) {
  put_elem(out, f.ref);
}

template<class G, class Tag>
struct DiffOps {
  using T = smooth::Tangent<G>;
  struct St {
    const G* a;
    const G* b;
    const T* ta;
    const AnalyticRminus<G>* fn;
  };
  static void prep(OpInst& op, Pool& pool) {
    auto* st = new St;
    st->a = &shared_elem<G>(pool, Tag::elem, (int)op.p[1]);
    st->b = &shared_elem<G>(pool, Tag::elem, (int)op.p[2]);
    st->ta = &shared_tan<G>(pool, Tag::tan, (int)op.p[1]);
    st->fn = &h::pool_get<AnalyticRminus<G>, &make_functor<G>, &digest_functor<G>>(pool, Tag::man, (int)op.p[2]);
    op.st = st;
  }
  static void run(OpInst& op, Out& out) {
    using smooth::diff::Type;
    const auto* st = static_cast<const St*>(op.st);
    const G& a = *st->a;
    const G& b = *st->b;
    const T& ta = *st->ta;
    OpInst* opp = &op;
    switch (op.p[0]) {
      case 0: {
        const auto [f, J] = smooth::diff::dr<1, Type::Numerical>(
          [&b, opp](const auto& v) { h::cb_tick(*opp); return smooth::rminus(v, b); }, smooth::wrt(a));
        put_mat(out, f);
        put_mat(out, J);
        break;
      }
      case 1: {
        const auto [f, J] = smooth::diff::dr<1, Type::Numerical>(
          [opp](const auto& v1, const auto& v2) { h::cb_tick(*opp); return smooth::composition(v1, v2); }, smooth::wrt(a, b));
        put_elem(out, f);
        put_mat(out, J);
        break;
      }
      case 2: {
        const auto [f, J, H] = smooth::diff::dr<2, Type::Numerical>(
          [&b, opp](const auto& v) -> double { h::cb_tick(*opp); return smooth::rminus(v, b).squaredNorm(); }, smooth::wrt(a));
        out.f64(f);
        put_mat(out, J);
        put_mat(out, H);
        break;
      }
      case 3: {
        const auto [f, J] = smooth::diff::dr<1>(
          [&b, opp](const auto& v) { h::cb_tick(*opp); return smooth::rminus(v, b); }, smooth::wrt(a));
        put_mat(out, f);
        put_mat(out, J);
        break;
      }
      case 4: {
        const auto [f, J] = smooth::diff::dr<1, Type::Analytic>(*st->fn, smooth::wrt(a));
        put_mat(out, f);
        put_mat(out, J);
        break;
      }
      case 5: {
        const auto [f, J, H] = smooth::diff::dr<2, Type::Default>(*st->fn, smooth::wrt(a));
        put_mat(out, f);
        put_mat(out, J);
        put_mat(out, H);
        break;
      }
      case 6: {
        const auto [f, J] = smooth::diff::dr<1, Type::Numerical>(
          [opp](const auto& v1, const auto& t, const auto& v2) {
            h::cb_tick(*opp);
            return smooth::rminus(smooth::rplus(v1, t), v2);
          },
          smooth::wrt(a, ta, b), std::index_sequence<0, 2>{});
        put_mat(out, f);
        put_mat(out, J);
        break;
      }
      case 7: {
        G x = a;  // task-private, non-const: perturbed in place and restored by dr
        T tx = ta;
        const auto [f, J] = smooth::diff::dr<1, Type::Numerical>(
          [&b, opp](const auto& v, const auto& t) { h::cb_tick(*opp); return smooth::rminus(smooth::rplus(v, t), b); },
          smooth::wrt(x, tx));
        put_mat(out, f);
        put_mat(out, J);
        put_elem(out, x);
        put_mat(out, tx);
        break;
      }
      case 8: {
        const auto [f] = smooth::diff::dr<0, Type::Numerical>(
          [&b, opp](const auto& v) { h::cb_tick(*opp); return smooth::rminus(v, b); }, smooth::wrt(a));
        put_mat(out, f);
        break;
      }
      case 9: {
        const auto [f, J] = smooth::diff::dr<1, Type::Numerical>(
          [opp](const auto& t) { h::cb_tick(*opp); return smooth::exp<G>(t); }, smooth::wrt(ta));
        put_elem(out, f);
        put_mat(out, J);
        break;
      }
      case 10: {  // second order, several arguments: the Jacobian and Hessian are assembled block by block
        const auto [f, J, H] = smooth::diff::dr<2, Type::Numerical>(
          [opp](const auto& v1, const auto& v2) -> double { h::cb_tick(*opp); return smooth::rminus(v1, v2).squaredNorm(); },
          smooth::wrt(a, b));
        out.f64(f);
        put_mat(out, J);
        put_mat(out, H);
        break;
      }
      case 11: {
        const auto [f, J, H] = smooth::diff::dr<2, Type::Numerical>(
          [opp](const auto& v1, const auto& t, const auto& v2) -> double {
            h::cb_tick(*opp);
            return smooth::rminus(smooth::rplus(v1, t), v2).squaredNorm();
          },
          smooth::wrt(a, ta, b));
        out.f64(f);
        put_mat(out, J);
        put_mat(out, H);
        break;
      }
      case 12: {
        const auto [f, J, H] = smooth::diff::dr<2>(
          [opp](const auto& v1, const auto& v2) -> double { h::cb_tick(*opp); return smooth::rminus(v2, v1).squaredNorm(); },
          smooth::wrt(a, b));
        out.f64(f);
        put_mat(out, J);
        put_mat(out, H);
        break;
      }
      default: out.tag("?"); break;
    }
  }
  static constexpr OpDef def = {Tag::lie, "E", kDiffNFn, kDiffFn, 10, 8, 0, 1, &prep, &run};
};

#define OPS_TAG3(NAME, BASE)                                  \
  struct Tag_##NAME {                                         \
    static constexpr const char* elem = "elem." #BASE;        \
    static constexpr const char* tan = "tan." #BASE;          \
    static constexpr const char* man = "functor." #BASE;      \
    static constexpr const char* lie = "diff." #BASE;         \
  }
#define REG_DIFF(G, BASE) \
  OPS_TAG3(Diff##BASE, BASE); \
  static ::ops::Registrar reg_diff_##BASE(&::ops::DiffOps<G, Tag_Diff##BASE>::def)

}  // namespace ops
