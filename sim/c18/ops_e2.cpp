#include "ops_diff.hpp"
using namespace smooth;
REG_DIFF(SE3d, SE3d);
