"""Build, sweep, gate, minimise, evidence — shared by the C18 and C16 checks (see DESIGN.md)."""
import collections
import glob
import hashlib
import json
import os
import re
import shutil
import subprocess
import sys
import time
from concurrent.futures import ThreadPoolExecutor

WRAP = ("-Wl,--wrap=malloc,--wrap=free,--wrap=calloc,--wrap=realloc,--wrap=posix_memalign,"
        "--wrap=aligned_alloc,--wrap=memalign,--wrap=memcpy,--wrap=memmove,--wrap=memset,--wrap=__cxa_allocate_exception")

VARIANTS = {
    # name: flags for instrumented TUs
    "O1": ["-O1", "-g1", "-DNDEBUG"],
    "O2A": ["-O2", "-g1"],  # assertions on
}


class Ctx:
    def __init__(self, verif, repo, jobs, seed):
        self.verif = verif
        self.repo = repo
        self.jobs = jobs
        self.seed = seed
        self.t0 = time.time()

    def bdir(self, variant):
        tag = variant
        if os.path.realpath(self.repo) != "/repo":
            # scratch copies of the repository (sensitivity selftest, seeded changes) get their own build directory
            tag += "-" + hashlib.sha1(os.path.realpath(self.repo).encode()).hexdigest()[:8]
        d = os.path.join(self.verif, "build", tag)
        os.makedirs(d, exist_ok=True)
        return d

    def rundir(self, tag):
        d = os.path.join(self.verif, "build", "run", tag)
        if os.path.isdir(d):
            shutil.rmtree(d)
        os.makedirs(d)
        return d


def log(msg):
    print(msg, flush=True)


# --------------------------------------------------------------------------------------------
# build
# --------------------------------------------------------------------------------------------

def gen_version_header(ctx, bdir):
    cm = open(os.path.join(ctx.repo, "CMakeLists.txt")).read()
    m = re.search(r"project\(\s*smooth\s+VERSION\s+(\d+)\.(\d+)\.(\d+)", cm)
    if not m:
        raise RuntimeError("cannot find project version in CMakeLists.txt")
    maj, mnr, pat = m.groups()
    src = open(os.path.join(ctx.repo, "config", "version.hpp.in")).read()
    src = (src.replace("@CMAKE_PROJECT_VERSION_MAJOR@", maj).replace("@CMAKE_PROJECT_VERSION_MINOR@", mnr)
           .replace("@CMAKE_PROJECT_VERSION_PATCH@", pat).replace("@CMAKE_PROJECT_VERSION@", "%s.%s.%s" % (maj, mnr, pat)))
    d = os.path.join(bdir, "gen", "smooth")
    os.makedirs(d, exist_ok=True)
    p = os.path.join(d, "version.hpp")
    if not os.path.exists(p) or open(p).read() != src:
        open(p, "w").write(src)


def _compile(cmd, env):
    t0 = time.time()
    r = subprocess.run(cmd, env=env, capture_output=True, text=True)
    return r.returncode, r.stdout + r.stderr, time.time() - t0


def build_binary(ctx, variant, name):
    """name: 'c18sim' or 'c16sim'.  Returns path or None."""
    bdir = ctx.bdir(variant)
    gen_version_header(ctx, bdir)
    sub = {"c18sim": "c18", "c16sim": "c16", "rtselftest": "rtselftest"}[name]
    sdir = os.path.join(ctx.verif, "sim", sub)
    rtdir = os.path.join(ctx.verif, "sim", "rt")
    inc = ["-I" + os.path.join(ctx.repo, "include"), "-I" + os.path.join(bdir, "gen"), "-I/usr/include/eigen3",
           "-I" + sdir, "-I" + rtdir]
    inst = sorted(glob.glob(os.path.join(sdir, "ops_*.cpp")))
    plain = [os.path.join(sdir, "main.cpp"), os.path.join(rtdir, "rt.cpp")]
    if os.path.exists(os.path.join(sdir, "hcore.cpp")):
        plain.append(os.path.join(sdir, "hcore.cpp"))
    cc = ["g++"]
    env = dict(os.environ)
    if shutil.which("ccache"):
        cc = ["ccache", "g++"]
        env["CCACHE_DIR"] = os.path.join(ctx.verif, ".ccache")
        env["CCACHE_MAXSIZE"] = "4G"
        env["CCACHE_NOHASHDIR"] = "1"
    jobs = []
    objs = []
    for src in inst:
        obj = os.path.join(bdir, sub + "_" + os.path.basename(src)[:-4] + ".o")
        objs.append(obj)
        jobs.append((src, cc + ["-std=c++20"] + VARIANTS[variant] + ["-fsanitize=thread", "-Wno-tsan", "-DSMOOTH_VERIF_SIM"] + inc +
                     ["-c", src, "-o", obj]))
    for src in plain:
        obj = os.path.join(bdir, sub + "_" + os.path.basename(src)[:-4] + ".o")
        objs.append(obj)
        jobs.append((src, cc + ["-std=c++20", "-O2", "-g", "-Wall"] + inc + ["-c", src, "-o", obj]))
    t0 = time.time()
    ok = True
    with ThreadPoolExecutor(max_workers=ctx.jobs) as ex:
        futs = [(src, ex.submit(_compile, cmd, env)) for src, cmd in jobs]
        for src, f in futs:
            rc, out, dt = f.result()
            if rc != 0:
                ok = False
                log("BUILD ERROR in %s:\n%s" % (src, out[-6000:]))
    if not ok:
        return None
    exe = os.path.join(bdir, name)
    r = subprocess.run(["g++", "-no-pie", "-rdynamic", WRAP, "-o", exe] + objs + ["-ldl", "-lpthread"],
                       capture_output=True, text=True)
    if r.returncode != 0:
        log("LINK ERROR:\n" + (r.stdout + r.stderr)[-6000:])
        return None
    log("built %s [%s] in %.1fs" % (name, variant, time.time() - t0))
    return exe


def build_all(ctx, variants):
    ok = True
    for v in variants:
        for n in ("c18sim", "c16sim"):
            if n == "c16sim" and not os.path.exists(os.path.join(ctx.verif, "sim", "c16", "main.cpp")):
                continue
            if not build_binary(ctx, v, n):
                ok = False
    return ok


# --------------------------------------------------------------------------------------------
# symbolisation
# --------------------------------------------------------------------------------------------

class Symbols:
    def __init__(self, exe):
        self.exe = exe
        self.cache = {}
        self.syms = None

    def funcs(self, pcs):
        need = [p for p in pcs if p not in self.cache]
        if need:
            r = subprocess.run(["addr2line", "-f", "-C", "-e", self.exe] + [hex(p) for p in need],
                               capture_output=True, text=True)
            lines = r.stdout.split("\n")
            for i, p in enumerate(need):
                fn = lines[2 * i] if 2 * i < len(lines) else "??"
                loc = lines[2 * i + 1] if 2 * i + 1 < len(lines) else "??"
                self.cache[p] = (fn, loc)
        return [self.cache[p] for p in pcs]

    def data_symbol(self, addr):
        if self.syms is None:
            r = subprocess.run(["nm", "-C", "-n", "--defined-only", self.exe], capture_output=True, text=True)
            self.syms = []
            for ln in r.stdout.split("\n"):
                m = re.match(r"([0-9a-f]+) (\w) (.*)", ln)
                if m and m.group(2) in "bBdDuVvrRwW":
                    self.syms.append((int(m.group(1), 16), m.group(3)))
        lo, hi = 0, len(self.syms)
        while lo < hi:
            mid = (lo + hi) // 2
            if self.syms[mid][0] <= addr:
                lo = mid + 1
            else:
                hi = mid
        if lo == 0:
            return "?"
        a, n = self.syms[lo - 1]
        return n if addr - a < 65536 else "?"


def short_fn(name):
    """strip template arguments and parameter lists: a stable function label"""
    out = []
    depth = 0
    for ch in name:
        if ch == "<":
            depth += 1
        elif ch == ">":
            depth -= 1
        elif depth == 0:
            out.append(ch)
    s = "".join(out)
    s = re.sub(r"\(.*$", "", s)
    s = re.sub(r"^.* ", "", s.strip())  # drop return type
    return s


# --------------------------------------------------------------------------------------------
# plans (text <-> struct)
# --------------------------------------------------------------------------------------------

def parse_plan(text):
    pl = {"seed": 0, "pool": 0, "warm": 0, "tasks": [], "sched": None, "faults": [], "sw": []}
    cur = None
    for ln in text.split("\n"):
        f = ln.split()
        if not f:
            continue
        k = f[0]
        if k == "seed":
            pl["seed"] = int(f[1])
        elif k == "pool":
            pl["pool"] = int(f[1])
        elif k == "warm":
            pl["warm"] = int(f[1])
        elif k == "ntasks":
            pl["tasks"] = [[] for _ in range(int(f[1]))]
        elif k == "task":
            cur = int(f[1])
        elif k == "op":
            ints = [int(x) for x in f[2:9]]
            if len(ints) < 7:
                ints.append(1)
            pl["tasks"][cur].append([f[1]] + ints)
        elif k == "sched":
            pl["sched"] = [f[1], int(f[2]), float(f[3]), int(f[4])]
        elif k == "fault":
            pl["faults"].append([f[1]] + [int(x) for x in f[2:6]])
        elif k == "sw":
            pl["sw"].append([int(x) for x in f[1:6]])
    return pl


def plan_text(pl):
    out = ["plan 1", "prop C18", "seed %d" % pl["seed"], "pool %d" % pl["pool"], "warm %d" % pl["warm"],
           "ntasks %d" % len(pl["tasks"])]
    for t, ops in enumerate(pl["tasks"]):
        out.append("task %d %d" % (t, len(ops)))
        for op in ops:
            out.append("op %s %d %d %d %d %d %d %d" % tuple(op))
    s = pl["sched"]
    out.append("sched %s %d %.17g %d" % (s[0], s[1], s[2], s[3]))
    for f in pl["faults"]:
        out.append("fault %s %d %d %d %d" % tuple(f))
    for w in pl["sw"]:
        out.append("sw %d %d %d %d %d" % tuple(w))
    out.append("end")
    return "\n".join(out) + "\n"


def drop_task(pl, t):
    q = json.loads(json.dumps(pl))
    del q["tasks"][t]
    sw = []
    for w in q["sw"]:
        task, op, off, to, cause = w
        if task == t:
            continue
        if to == t:
            if task < 0:
                to = 0
            else:
                continue
        # caller threads are renumbered; threads created by the code under test are numbered from 16
        if t < task < 16:
            task -= 1
        if t < to < 16:
            to -= 1
        sw.append([task, op, off, to, cause])
    q["sw"] = sw
    # faults that stay in an explicit plan (clock jumps) follow their task
    fl = []
    for f in q.get("faults", []):
        kind, task, op, off, arg = f
        if task == t:
            continue
        if t < task < 16:
            task -= 1
        fl.append([kind, task, op, off, arg])
    q["faults"] = fl
    return q


def drop_op(pl, t, i):
    q = json.loads(json.dumps(pl))
    del q["tasks"][t][i]
    sw = []
    for w in q["sw"]:
        task, op, off, to, cause = w
        if task == t:
            if op == i:
                continue
            if op > i:
                op -= 1
        sw.append([task, op, off, to, cause])
    q["sw"] = sw
    fl = []
    for f in q.get("faults", []):
        kind, task, op, off, arg = f
        if task == t:
            if op == i:
                continue
            if op > i:
                op -= 1
        fl.append([kind, task, op, off, arg])
    q["faults"] = fl
    return q


# --------------------------------------------------------------------------------------------
# running the simulator binary
# --------------------------------------------------------------------------------------------

class Runner:
    def __init__(self, ctx, exe, tag):
        self.ctx = ctx
        self.exe = exe
        self.syms = Symbols(exe)
        self.tmp = os.path.join(ctx.verif, "build", "run", tag + "-tmp")
        os.makedirs(self.tmp, exist_ok=True)
        self.n = 0
        self.execs = 0

    def exec_plan(self, text):
        self.n += 1
        self.execs += 1
        p = os.path.join(self.tmp, "p%d.plan" % self.n)
        open(p, "w").write(text)
        r = subprocess.run([self.exe, "exec", p], capture_output=True, text=True, timeout=600)
        res = None
        for ln in r.stdout.split("\n"):
            if ln.startswith("{"):
                try:
                    j = json.loads(ln)
                except Exception:
                    continue
                if j.get("t") == "exec":
                    res = j
        try:
            os.unlink(p)
        except OSError:
            pass
        if res is not None:
            drop_trusted_races(res, self.syms)
        return r.returncode, res, r.stderr


def sweep(ctx, exe, tag, seed, deadline, scheds, extra, workers):
    rd = ctx.rundir(tag)
    cand_dir = os.path.join(rd, "cands")
    os.makedirs(cand_dir)
    procs = []
    for i in range(workers):
        out = open(os.path.join(rd, "w%d.jsonl" % i), "w")
        cmd = [exe, "sweep", str(seed), str(i), str(workers), "%.1f" % deadline, str(scheds), "--cand-dir", cand_dir] + extra
        procs.append((subprocess.Popen(cmd, stdout=out, stderr=subprocess.PIPE, text=True), out))
    errs = []
    for p, out in procs:
        _, err = p.communicate()
        out.close()
        if p.returncode != 0:
            errs.append("worker exit %d: %s" % (p.returncode, (err or "")[-2000:]))
    recs = []
    for i in range(workers):
        for ln in open(os.path.join(rd, "w%d.jsonl" % i)):
            if ln.startswith("{"):
                try:
                    recs.append(json.loads(ln))
                except Exception:
                    errs.append("unparsable line from worker %d" % i)
    return recs, errs, rd


# --------------------------------------------------------------------------------------------
# C18: signatures, gate, minimisation
# --------------------------------------------------------------------------------------------

VIOL_ORDER = ["crash", "deadlock", "progress", "diverge", "input_changed", "race"]
BITS = {"race": 1, "diverge": 2, "input_changed": 4, "deadlock": 8, "progress": 16, "crash": 32, "machinery": 64,
        "budget": 128}


def classes_of(bits):
    return [c for c in VIOL_ORDER if bits & BITS[c]]


# Trusted standard-library primitives whose internal protocol is correct on every supported target but
# is not expressible in the C++ memory model the detector implements.  One entry today: libstdc++'s
# std::atomic<std::shared_ptr<T>> (_Sp_atomic) guards its raw pointer with a lock bit and lets readers
# UNLOCK with a relaxed RMW, so a later locked writer is formally unordered with an earlier locked
# reader (the genuine ThreadSanitizer reports the same pair).  A race report is dropped only if BOTH
# accesses are inside such a primitive.
TRUSTED_STDLIB = re.compile(r"^std::_Sp_atomic<")


def drop_trusted_races(rec, syms):
    """remove race reports internal to trusted standard-library primitives; returns number dropped"""
    races = rec.get("races")
    if not races:
        return 0
    keep = []
    for r in races:
        (fc, _), (fp, _) = syms.funcs([r["pc_cur"], r["pc_prev"]])
        if TRUSTED_STDLIB.match(fc) and TRUSTED_STDLIB.match(fp):
            continue
        keep.append(r)
    dropped = len(races) - len(keep)
    if dropped:
        rec["races"] = keep
        rec["stdlib_races_dropped"] = rec.get("stdlib_races_dropped", 0) + dropped
        if not keep and rec.get("clsbits", 0) & BITS["race"]:
            rec["clsbits"] &= ~BITS["race"]
            cl = classes_of(rec["clsbits"])
            rec["cls"] = cl[0] if cl else ("budget" if rec["clsbits"] & BITS["budget"] else "ok")
            if not cl:
                rec.pop("cand", None)
    return dropped


def race_object(r, syms):
    c = r["class"]
    if c == "pool":
        return "pool:" + r["region"].split("[")[0]
    if c == "static":
        return "static:" + short_fn(syms.data_symbol(r["addr"]))
    return c


def signature(res, syms):
    """Signature of a run result: primary class + what identifies the defect independent of schedule."""
    bits = res.get("clsbits", 0)
    cls = classes_of(bits)
    if not cls:
        return None
    sig = {"class": cls[0], "also": cls[1:]}
    races = res.get("races", [])
    if races:
        objs = collections.Counter()
        for r in races:
            objs[race_object(r, syms)] += r.get("count", 1)
        sig["object"] = objs.most_common(1)[0][0]
        pcs = []
        for r in races[:12]:
            pcs += [r["pc_cur"], r["pc_prev"]]
        fns = sorted(set(short_fn(f) for f, _ in syms.funcs(pcs)))
        sig["functions"] = fns[:8]
        sig["race_ops"] = sorted(set(o.split(":")[0] for r in races for o in (r["op_cur"], r["op_prev"])))
    div = res.get("diverged", [])
    if div:
        sig["diverged_ops"] = sorted(set(d["name"].split(":")[0] for d in div))
    if res.get("stuck") and cls[0] in ("deadlock", "progress"):
        blocked = [x for x in res["stuck"] if x["state"] == "blocked"]
        sig["stuck_ops"] = sorted(set(x["op"].split(":")[0] for x in (blocked or res["stuck"]) if x["op"] != "-"))
        sig["stuck_functions"] = sorted(set(short_fn(f) for f, _ in syms.funcs([x["pc"] for x in blocked if x["pc"]])))[:6]
    if res.get("crash"):
        sig["crash_op"] = res["crash"].get("op", "?").split(":")[0]
        sig["crash_signal"] = res["crash"].get("sig") or res["crash"].get("wsig")
    return sig


def sig_key(sig):
    """what must persist during minimisation / what identifies a finding"""
    if sig is None:
        return None
    k = [sig["class"]]
    if sig["class"] == "race":
        k.append(sig.get("object"))
    elif sig["class"] == "diverge":
        k.append(",".join(sig.get("diverged_ops", [])[:1]))
        if "object" in sig:
            k.append(sig["object"])
    elif sig["class"] == "crash":
        k.append(sig.get("crash_op"))
    elif sig["class"] in ("deadlock", "progress"):
        k.append(",".join(sig.get("stuck_ops", [])))
    return tuple(k)


def sig_compatible(sig, target):
    """minimisation may lose secondary information but never the primary class or its object"""
    if sig is None:
        return False
    if sig["class"] != target["class"] and target["class"] not in sig.get("also", []):
        return False
    if target["class"] == "race":
        return sig.get("object") == target.get("object")
    if target["class"] == "diverge":
        a = set(sig.get("diverged_ops", []))
        b = set(target.get("diverged_ops", []))
        return bool(a & b) and sig.get("object") == target.get("object")
    if target["class"] == "crash":
        return sig.get("crash_op") == target.get("crash_op")
    if target["class"] in ("deadlock", "progress"):
        return bool(set(sig.get("stuck_ops", [])) & set(target.get("stuck_ops", []))) or not target.get("stuck_ops")
    return True


def ddmin(items, test, budget):
    """classic ddmin over a list; `test(sublist)` is True if the violation persists"""
    n = 2
    while len(items) >= 2 and budget[0] > 0:
        chunk = max(1, len(items) // n)
        subsets = [items[i:i + chunk] for i in range(0, len(items), chunk)]
        reduced = False
        for i in range(len(subsets)):
            if budget[0] <= 0:
                break
            comp = [x for j, s in enumerate(subsets) if j != i for x in s]
            budget[0] -= 1
            if test(comp):
                items = comp
                n = max(n - 1, 2)
                reduced = True
                break
        if not reduced:
            if n >= len(items):
                break
            n = min(len(items), n * 2)
    if len(items) == 1 and budget[0] > 0:
        budget[0] -= 1
        if test([]):
            items = []
    return items


def minimise(runner, syms, pl, target, max_execs=260, max_seconds=45.0):
    budget = [max_execs]
    t_stop = time.time() + max_seconds

    def holds(q):
        if time.time() > t_stop:
            budget[0] = 0
            return False
        rc, res, _ = runner.exec_plan(plan_text(q))
        if res is None:
            return False
        return sig_compatible(signature(res, syms), target)

    min_tasks = 2 if target["class"] in ("race", "deadlock", "progress") or "object" in target else 1
    if len(pl["tasks"]) < min_tasks:
        min_tasks = len(pl["tasks"])  # a single caller whose operation runs threads of its own

    def min_switches(pl):
        # the first entry is the controller's initial hand-off
        head = [w for w in pl["sw"] if w[0] < 0][:1]
        rest = [w for w in pl["sw"] if w[0] >= 0]

        def test_sw(sub):
            q = dict(pl)
            q["sw"] = head + sub
            return holds(q)

        rest = ddmin(rest, test_sw, budget)
        pl = dict(pl)
        pl["sw"] = head + rest
        return pl

    # 1. switches first: with few switches left, dropping tasks and operations no longer derails
    #    the rest of the schedule
    pl = min_switches(pl)
    # 2. whole tasks
    t = len(pl["tasks"]) - 1
    while t >= 0 and budget[0] > 0:
        if len(pl["tasks"]) > min_tasks:
            q = drop_task(pl, t)
            budget[0] -= 1
            if holds(q):
                pl = q
        t -= 1
    # 3. operations
    for t in range(len(pl["tasks"])):
        i = len(pl["tasks"][t]) - 1
        while i >= 0 and budget[0] > 0:
            if len(pl["tasks"][t]) > 1:
                q = drop_op(pl, t, i)
                budget[0] -= 1
                if holds(q):
                    pl = q
            i -= 1
    # 4. switches again
    pl = min_switches(pl)
    return pl, max_execs - budget[0]


def load_known(ctx):
    p = os.path.join(ctx.verif, "known_findings.json")
    if not os.path.exists(p):
        return {"findings": [], "fixed": []}
    return json.load(open(p))


def match_known(known, prop, sig):
    for f in known.get("findings", []):
        if f.get("property") != prop or f.get("status") != "known":
            continue
        m = f.get("match", {})
        if m.get("class") and m["class"] != sig["class"] and m["class"] not in sig.get("also", []):
            continue
        if m.get("object_regex") and not re.search(m["object_regex"], sig.get("object", "") or ""):
            continue
        ops = sig.get("race_ops", []) + sig.get("diverged_ops", [])
        if m.get("ops_regex") and not (ops and all(re.search(m["ops_regex"], o) for o in ops)):
            continue
        return f
    return None


def describe_sig(sig):
    s = sig["class"]
    if sig.get("also"):
        s += "+" + "+".join(sig["also"])
    if sig.get("object"):
        s += " on " + sig["object"]
    if sig.get("functions"):
        s += " in " + ", ".join(sig["functions"][:4])
    if sig.get("diverged_ops"):
        s += "; wrong result of " + ",".join(sig["diverged_ops"][:3])
    if sig.get("stuck_ops"):
        s += ": tasks stuck inside " + ",".join(sig["stuck_ops"][:4])
        if sig.get("stuck_functions"):
            s += " (blocked in " + ", ".join(sig["stuck_functions"][:3]) + ")"
    if sig.get("crash_op"):
        s += "; signal %s while a task was inside %s" % (sig.get("crash_signal"), sig["crash_op"])
    return s


SW_CAUSE = {0: "strategy", 1: "forced:blocked", 2: "forced:finished", 3: "fault:preempt", 4: "fault:stall", 5: "fair:round-robin",
            6: "strategy:after-lock-acquired", 7: "hand-off:yield/sleep"}


def process_candidate(ctx, runner, syms, cand_path, variant, found_rec, known, outdir, max_seconds=45.0):
    """gate -> minimise -> gate again -> replay file.  Returns dict(status=..., ...)."""
    text = open(cand_path).read()
    rc, res, err = runner.exec_plan(text)
    if res is None:
        return {"status": "machinery", "why": "candidate could not be executed: " + err[-500:]}
    sig = signature(res, syms)
    if sig is None:
        # the candidate was recorded under a strategy whose schedule did not fit in the log, or the
        # recorded explicit schedule does not reproduce: a simulator problem, never a violation
        return {"status": "machinery", "why": "candidate %s does not reproduce from its recorded schedule" % cand_path}
    if res.get("clsbits", 0) & BITS["machinery"]:
        return {"status": "machinery", "why": "machinery-class outcome: " + json.dumps(res)[:800]}
    pl = parse_plan(text)
    # a candidate normally carries the explicit schedule that was taken; if the log did not fit it
    # carries the seeded strategy instead, which is just as deterministic (only tasks/ops are minimised)
    pl_min, used = minimise(runner, syms, pl, sig, max_seconds=max_seconds)
    mtext = plan_text(pl_min)
    rc1, r1, _ = runner.exec_plan(mtext)
    rc2, r2, _ = runner.exec_plan(mtext)
    if r1 is None or r2 is None:
        return {"status": "machinery", "why": "minimised plan could not be executed"}
    s1, s2 = signature(r1, syms), signature(r2, syms)
    if not (sig_compatible(s1, sig) and sig_compatible(s2, sig) and r1["log"] == r2["log"] and r1["clsbits"] == r2["clsbits"]):
        return {"status": "machinery", "why": "minimised plan is not deterministic: %s vs %s" % (json.dumps(s1), json.dumps(s2))}
    # symbolised race list for the reader
    races = []
    for r in r1.get("races", [])[:6]:
        (fc, lc), (fp, lp) = syms.funcs([r["pc_cur"], r["pc_prev"]])
        races.append({"object": race_object(r, syms), "region": r["region"],
                      "current": {"task": r["task_cur"], "write": bool(r["w_cur"]), "op": r["op_cur"], "fn": fc, "loc": lc},
                      "previous": {"task": r["task_prev"], "write": bool(r["w_prev"]), "op": r["op_prev"], "fn": fp, "loc": lp},
                      "count": r["count"]})
    replay = {
        "property": "C18",
        "verif_seed": ctx.seed,
        "variant": variant,
        "found": {k: found_rec.get(k) for k in ("seed", "w", "s", "strategy", "p", "depth", "ntasks", "warm", "fired")},
        "signature": s1,
        "what": describe_sig(s1),
        "plan": mtext,
        "tasks": [[{"op": o[0], "fn": o[1], "objs": o[2:4], "salt": o[5], "throw_at": o[6], "repeat": o[7]} for o in t] for t in pl_min["tasks"]],
        "schedule": [{"task": w[0], "op": w[1], "event_offset": w[2], "to": w[3], "cause": SW_CAUSE.get(w[4], str(w[4]))}
                     for w in pl_min["sw"]],
        "expected": {"log": r1["log"], "clsbits": r1["clsbits"], "events": r1["events"], "switches": r1["switches"]},
        "races": races,
        "diverged": r1.get("diverged", []),
        "minimisation": {"execs": used, "tasks_before": len(pl["tasks"]), "tasks_after": len(pl_min["tasks"]),
                         "ops_before": sum(len(t) for t in pl["tasks"]), "ops_after": sum(len(t) for t in pl_min["tasks"]),
                         "switches_before": len(pl["sw"]), "switches_after": len(pl_min["sw"])},
    }
    os.makedirs(outdir, exist_ok=True)
    hid = hashlib.sha1(mtext.encode()).hexdigest()[:10]
    path = os.path.join(outdir, "C18-%d-%s.json" % (ctx.seed, hid))
    json.dump(replay, open(path, "w"), indent=1)
    kf = match_known(known, "C18", s1)
    return {"status": "known" if kf else "violation", "known": kf, "replay": path, "sig": s1, "what": replay["what"]}


def c18_replay(ctx, path):
    rp = json.load(open(path))
    variant = rp.get("variant", "O1")
    exe = build_binary(ctx, variant, "c18sim")
    if not exe:
        return 2
    syms = Symbols(exe)
    runner = Runner(ctx, exe, "replay")
    rc1, r1, e1 = runner.exec_plan(rp["plan"])
    rc2, r2, e2 = runner.exec_plan(rp["plan"])
    if r1 is None or r2 is None:
        log("replay could not be executed: " + (e1 or e2)[-800:])
        return 2
    s1, s2 = signature(r1, syms), signature(r2, syms)
    if s1 is None and s2 is None:
        log("replay %s: no violation on this tree (log %s)" % (path, r1["log"]))
        return 0
    if r1["log"] != r2["log"] or r1["clsbits"] != r2["clsbits"]:
        log("replay is not deterministic: %s/%s vs %s/%s" % (r1["log"], r1["clsbits"], r2["log"], r2["clsbits"]))
        return 2
    same = sig_compatible(s1, rp["signature"])
    log("replay %s: %s (log %s, expected %s)%s" % (path, describe_sig(s1), r1["log"], rp["expected"]["log"],
                                                 "" if same else " [different signature than recorded]"))
    for r in r1.get("races", [])[:4]:
        (fc, lc), (fp, lp) = syms.funcs([r["pc_cur"], r["pc_prev"]])
        log("  race on %s: task %d %s in %s (%s)  vs  task %d %s in %s (%s)" % (
            race_object(r, syms), r["task_cur"], "write" if r["w_cur"] else "read", short_fn(fc), r["op_cur"],
            r["task_prev"], "write" if r["w_prev"] else "read", short_fn(fp), r["op_prev"]))
    for d in r1.get("diverged", [])[:4]:
        log("  result of task %d op %d (%s) differs from its sequential reference" % (d["task"], d["op"], d["name"]))
    print("VIOLATION property=C18 replay=%s" % path, flush=True)
    return 1


# --------------------------------------------------------------------------------------------
# C18 check
# --------------------------------------------------------------------------------------------

TIERS = {
    # simulated seconds, schedules per workload, determinism sample (workloads)
    "quick": {"budget": 45.0, "scheds": 12, "twice_budget": 6.0, "variants": ["O1"], "groups": 5, "min_seconds": 40.0},
    "thorough": {"budget": 900.0, "scheds": 40, "twice_budget": 60.0, "variants": ["O1", "O2A"], "groups": 10, "min_seconds": 180.0},
}


def get_defs(exe):
    r = subprocess.run([exe, "defs"], capture_output=True, text=True)
    return json.loads(r.stdout)["defs"]


def c18_check(ctx, tier, budget=None, write_evidence=True, family=None, op=None):
    T = dict(TIERS[tier])
    if budget is not None:
        T["budget"] = budget
        T["twice_budget"] = min(T["twice_budget"], max(2.0, budget / 8))
    known = load_known(ctx)
    t_start = time.time()
    agg = Agg()
    viol = []
    known_hits = []
    machinery = []
    variants_done = []
    for vi, variant in enumerate(T["variants"]):
        exe = build_binary(ctx, variant, "c18sim")
        if not exe:
            log("build failed")
            return 2
        defs = get_defs(exe)
        agg.set_defs(defs)
        syms = Symbols(exe)
        extra = []
        if tier == "thorough":
            extra.append("--thorough")
        if family:
            extra += ["--family", family]
        if op:
            extra += ["--op", op]
        share = T["budget"] / len(T["variants"])
        # determinism sample: every run twice in fresh processes, logs must be identical
        recs, errs, rd = sweep(ctx, exe, "c18-%s-twice" % variant, ctx.seed ^ 0x7715e, T["twice_budget"] / len(T["variants"]),
                               4, extra + ["--twice", "--max-cands", "0"], ctx.jobs)
        machinery += errs
        agg.add(recs, variant, twice=True)
        # main sweep
        recs, errs, rd = sweep(ctx, exe, "c18-%s" % variant, ctx.seed, share, T["scheds"], extra, ctx.jobs)
        machinery += errs
        for r in recs:
            if r.get("t") == "run" and r.get("races"):
                agg.stdlib_dropped += drop_trusted_races(r, syms)
        agg.add(recs, variant)
        variants_done.append(variant)
        # candidates: group by preliminary signature, process one per group
        groups = collections.OrderedDict()
        for r in recs:
            if r.get("t") == "run" and r.get("cand"):
                if r["clsbits"] & BITS["machinery"]:
                    machinery.append("machinery-class run: " + json.dumps(r)[:600])
                    continue
                sg = signature(r, syms)
                groups.setdefault(sig_key(sg), []).append(r)
        runner = Runner(ctx, exe, "c18-%s" % variant)
        outdir = os.environ.get("VERIF_REPLAY_DIR") or os.path.join(ctx.verif, "replays")
        for key, rs in list(groups.items())[:T["groups"]]:
            res = None
            for r in rs[:3]:
                res = process_candidate(ctx, runner, syms, r["cand"], variant, r, known, outdir, T["min_seconds"])
                if res["status"] != "machinery":
                    break
            if res["status"] == "machinery":
                machinery.append(res["why"])
            elif res["status"] == "known":
                known_hits.append(res)
            else:
                viol.append(res)
        if len(groups) > T["groups"]:
            log("note: %d further candidate groups were not minimised" % (len(groups) - T["groups"]))
    wall = time.time() - t_start
    if agg.twice_total and agg.twice_same != agg.twice_total:
        machinery.append("determinism sample: %d of %d runs differed between two fresh processes" %
                         (agg.twice_total - agg.twice_same, agg.twice_total))
    if agg.runs == 0:
        machinery.append("no simulated run completed (%d workloads lost their reference runs%s)" %
                         (len(agg.ref_failed), (": " + agg.ref_failed[0].get("why", "")) if agg.ref_failed else ""))
    elif len(agg.ref_failed) * 4 > agg.workloads:
        machinery.append("reference runs failed for %d workloads (%d ran): %s" %
                         (len(agg.ref_failed), agg.workloads, agg.ref_failed[0].get("why", "")))
    for k in known_hits:
        print("KNOWN-FINDING: property=C18 %s (replay %s)" % (k["known"].get("what", k["what"]), k["replay"]), flush=True)
    for v in viol:
        log("violation: " + v["what"])
        print("VIOLATION property=C18 replay=%s" % v["replay"], flush=True)
    for m in machinery[:10]:
        log("MACHINERY: " + m)
    if write_evidence:
        write_c18_evidence(ctx, tier, agg, wall, len(viol), known_hits, variants_done, machinery)
    log(agg.summary(wall))
    if viol:
        return 1
    if machinery:
        return 2
    return 0


class Agg:
    def __init__(self):
        self.runs = 0
        self.cls = collections.Counter()
        self.strategy = collections.Counter()
        self.ntasks = collections.Counter()
        self.events = 0
        self.switches = 0
        self.forced = 0
        self.fired = [0, 0, 0, 0]
        self.throws = 0
        self.guard_init = 0
        self.guard_block = 0
        self.preempt_in_init = 0
        self.mutex_block = 0
        self.cold = 0
        self.warm = 0
        self.kinds = [0] * 12
        self.ev_static = 0
        self.ev_heap = 0
        self.conflicts = 0
        self.sched_set = set()
        self.csig_set = set()
        self.nontrivial = set()
        self.workloads = 0
        self.ref_failed = []
        self.cells = set()
        self.inside = set()
        self.overlap = set()
        self.twice_total = 0
        self.twice_same = 0
        self.defs = []
        self.variants = collections.Counter()
        self.samples = []
        self.fair = 0
        self.stdlib_dropped = 0
        self.wall_runs = 0.0
        self.budget = 0
        self.lib_threads = [0, 0, 0, 0]
        self.thread_limit = 0

    def set_defs(self, defs):
        self.defs = defs

    def add(self, recs, variant, twice=False):
        for r in recs:
            t = r.get("t")
            if t == "twice":
                self.twice_total += 1
                self.twice_same += 1 if r["same"] else 0
            elif t == "workload":
                self.workloads += 1
            elif t == "ref_failed":
                self.ref_failed.append(r)
            elif t == "run":
                self.runs += 1
                self.variants[variant] += 1
                self.cls[r["cls"]] += 1
                if r["clsbits"] & BITS["budget"]:
                    self.budget += 1
                if r.get("thread_limit"):
                    self.thread_limit += 1
                for i, v in enumerate(r.get("lib_threads", [])[:4]):
                    self.lib_threads[i] += v
                self.strategy[r["strategy"] + ("" if not r["p"] else "(p=%g)" % r["p"]) + ("" if r["strategy"] != "pct" else "(d=%d)" % r["depth"])] += 1
                self.ntasks[r["ntasks"]] += 1
                self.events += r["events"]
                self.switches += r["switches"]
                self.forced += r["forced"]
                for i, v in enumerate(r["fired"][:4]):
                    self.fired[i] += v
                self.throws += r["throws"]
                self.guard_init += r["guard_init"]
                self.guard_block += r["guard_block"]
                self.preempt_in_init += r["preempt_in_init"]
                self.mutex_block += r["mutex_block"]
                if r["warm"]:
                    self.warm += 1
                else:
                    self.cold += 1
                for i, k in enumerate(r["kinds"]):
                    self.kinds[i] += k
                self.ev_static += r["ev_static"]
                self.ev_heap += r["ev_heap"]
                self.conflicts += r["conflicts"]
                wid = (variant, r["seed"], r["w"])
                self.sched_set.add((wid, r["sched"]))
                self.csig_set.add((wid, r["csig"]))
                if r["n_overlap"] > 0:
                    self.nontrivial.add((wid, r["csig"], r["sched"]))
                self.cells.update(r["cells"])
                self.inside.update(r["inside"])
                self.overlap.update(r["overlap"])
                self.fair += r["fair"]
                self.wall_runs += r["wall"]
                if len(self.samples) < 4 and r["s"] in (1, 2) and not twice:
                    self.samples.append(r)

    def cell_name(self, c):
        d, f = c // 64, c % 64
        if d < len(self.defs) and f < len(self.defs[d]["fns"]):
            return "%s:%s" % (self.defs[d]["name"], self.defs[d]["fns"][f])
        return str(c)

    def all_cells(self):
        out = []
        for d in self.defs:
            for f in range(len(d["fns"])):
                out.append(d["i"] * 64 + f)
        return out

    def summary(self, wall):
        return ("C18: %d runs over %d workloads in %.0fs (%.0f runs/h), %d events, %d switches, classes %s, "
                "distinct schedules %d, conflict signatures %d, nontrivial %d, cells %d/%d (inside %d, overlap %d), "
                "faults fired preempt/stall/late/clock %s, throws %d, guard_init %d guard_block %d preempt_in_init %d, twice %d/%d, workloads without reference %d" % (
                    self.runs, self.workloads, wall, self.runs / max(wall, 1e-9) * 3600, self.events, self.switches,
                    dict(self.cls), len(self.sched_set), len(self.csig_set), len(self.nontrivial), len(self.cells),
                    len(self.all_cells()), len(self.inside), len(self.overlap), self.fired, self.throws, self.guard_init,
                    self.guard_block, self.preempt_in_init, self.twice_same, self.twice_total, len(self.ref_failed)))


EV_KIND_NAMES = ["read", "write", "atomic", "guard", "mutex", "alloc", "clock", "op_begin", "op_end", "task_start",
                 "task_exit", "once"]


def write_c18_evidence(ctx, tier, agg, wall, nviol, known_hits, variants, machinery):
    exe = os.path.join(ctx.bdir(variants[0]), "c18sim")
    samples = []
    for r in agg.samples[:3]:
        try:
            extra = ["--thorough"] if tier == "thorough" else []
            g = subprocess.run([exe, "gen", str(r["seed"]), str(r["w"]), str(r["s"])] + extra, capture_output=True, text=True,
                               timeout=120)
            samples.append({"seed": r["seed"], "workload": r["w"], "schedule": r["s"], "plan": g.stdout,
                            "outcome": {k: r[k] for k in ("cls", "events", "switches", "log", "sched", "csig", "fired",
                                                          "guard_init", "guard_block", "n_inside", "n_overlap")}})
        except Exception as e:  # pragma: no cover
            samples.append({"error": str(e)})
    if not samples:
        samples = [{"note": "no run completed"}]
    allc = agg.all_cells()
    empty = [agg.cell_name(c) for c in allc if c not in agg.cells]
    no_inside = [agg.cell_name(c) for c in allc if c in agg.cells and c not in agg.inside]
    ev = {
        "property_id": "C18",
        "tier": tier,
        "seed": ctx.seed,
        "level": "exploration",
        "wall_s": round(wall, 2),
        "violations": nviol,
        "coverage": {
            "evaluations": agg.runs,
            "distinct_nontrivial": len(agg.nontrivial),
            "rule": ("One evaluation = one simulated run: a seeded workload (2..16 caller threads, each a list of const "
                     "library operations on one pool of shared const objects) executed under one seeded schedule/fault "
                     "configuration with every load and store intercepted. A run is non-trivial if at least one context "
                     "switch happened strictly inside an operation towards a task whose current or next operation is the "
                     "same operation definition (two callers inside the same library code on the shared pool at once); "
                     "distinct = distinct (workload, conflict-order signature, schedule hash)."),
            "samples": samples,
            "runs_per_hour": round(agg.runs / max(wall, 1e-9) * 3600),
            "workloads": agg.workloads,
            "simulated_time_events": agg.events,
            "context_switches": agg.switches,
            "forced_switches": agg.forced,
            "distinct_schedules": len(agg.sched_set),
            "distinct_conflict_order_signatures": len(agg.csig_set),
            "fault_kinds_fired": {"preempt": agg.fired[0], "stall": agg.fired[1], "late_start": agg.fired[2], "clock_jump": agg.fired[3],
                                  "cold_start_runs": agg.cold, "warm_runs": agg.warm, "callback_throw": agg.throws},
            "probes": {"static_initialisers_run_inside_simulation": agg.guard_init, "guard_block": agg.guard_block,
                       "preempt_inside_initialiser": agg.preempt_in_init, "mutex_block": agg.mutex_block,
                       "fair_mode_entered": agg.fair, "contended_word_accesses": agg.conflicts},
            "outcome_classes": dict(agg.cls),
            "budget_exhausted": agg.budget,
            "reference_failed": len(agg.ref_failed),
            "strategies": dict(agg.strategy),
            "threads_per_run": {str(k): v for k, v in sorted(agg.ntasks.items())},
            "events_by_kind": {EV_KIND_NAMES[i]: agg.kinds[i] for i in range(12)},
            "events_by_address_class": {"static_data": agg.ev_static, "heap_or_pool": agg.ev_heap},
            "operation_cells": {"defined": len(allc), "executed": len(agg.cells),
                                "preempted_inside": len(agg.inside), "overlapped_same_op": len(agg.overlap),
                                "not_executed": empty[:60], "executed_never_preempted_inside": no_inside[:60]},
            "determinism_sample": {"runs_executed_twice": agg.twice_total, "identical": agg.twice_same},
            "threads_created_by_the_code_under_test": {
                "during_preparation": agg.lib_threads[0], "inside_simulated_interval": agg.lib_threads[1],
                "taken_over_from_preparation": agg.lib_threads[2], "left_waiting_at_end_of_run": agg.lib_threads[3],
                "runs_set_aside_thread_limit": agg.thread_limit,
                "note": "0 everywhere on a tree whose library creates no threads; the support is exercised by "
                        "--selftest runtime, mutants m14/m15/n04/n05 and seeded changes S18-19/20, N18-04"},
            "build_variants": dict(agg.variants),
            "components": {
                "real_instrumented": ["smooth headers", "Eigen 3.4 headers", "libstdc++ header templates"],
                "real_uninstrumented": ["libm", "libc string/mem (recovered by --wrap)", "libstdc++.so internals"],
                "modelled": ["static-init guards", "pthread_mutex (recursive, try, timed)", "pthread_once", "pthread_rwlock",
                             "pthread_cond (wait, timed wait, signal: schedule-dependent waiter, broadcast)",
                             "futex wait/wake (std::atomic wait/notify, latch, semaphore, future)", "atomic_thread_fence",
                             "pthread_create / join / detach from inside the code under test (threads adopted as tasks, "
                             "also across the preparation run)", "sched_yield / nanosleep / usleep (hand-off)", "sem_wait / sem_post", "pthread_spin_lock",
                             "clock_gettime (simulated time = event count)", "scheduler (one runner)"],
                "stubbed": ["none of the code under test; a futex operation other than wait/wake or a recursive pthread_once "
                            "ends the run with class machinery (exit 2)"],
                "wrapped": ["malloc/free/realloc/calloc/aligned allocation", "operator new/delete"],
            },
            "known_findings_hit": [k["what"] for k in known_hits],
            "machinery_errors": machinery[:5],
            "race_reports_dropped_inside_trusted_stdlib_primitives": agg.stdlib_dropped,
        },
        "assumptions": [
            "race reports whose both accesses lie inside libstdc++'s std::atomic<std::shared_ptr> implementation are dropped (its relaxed unlock is not expressible in the C++ memory model; see DESIGN 10.3)",
            "sequentially consistent interleavings only (weak-memory reorderings are not simulated; races are found by happens-before on the memory orders written in the code)",
            "loads/stores inside uninstrumented shared libraries are invisible except mem* and the allocator",
            "<= 16 caller threads, <= 24 operations per caller, <= 250 simulated threads alive at once (callers + threads the library creates)",
        ],
    }
    os.makedirs(os.path.join(ctx.verif, "evidence"), exist_ok=True)
    json.dump(ev, open(os.path.join(ctx.verif, "evidence", "C18.json"), "w"), indent=1)


# --------------------------------------------------------------------------------------------
# selftests
# --------------------------------------------------------------------------------------------

def selftest(ctx, which):
    if which == "determinism":
        return selftest_determinism(ctx)
    if which == "runtime":
        exe = build_binary(ctx, "O1", "rtselftest")
        if not exe:
            return 2
        r = subprocess.run([exe, "60"], capture_output=True, text=True)
        log(r.stdout + r.stderr)
        return r.returncode
    if which == "seeded":
        import sensitivity
        only = os.environ.get("VERIF_SEEDED")
        return sensitivity.run_seeded(ctx, only.split(",") if only else None)
    if which == "sensitivity":
        import sensitivity
        only = os.environ.get("VERIF_MUTANTS")
        return sensitivity.run(ctx, only.split(",") if only else None)
    log("unknown selftest")
    return 2


def selftest_determinism(ctx):
    exe = build_binary(ctx, "O1", "c18sim")
    if not exe:
        return 2
    total = same = 0
    logs = {}
    # every run twice in-process-tree, and the whole sweep under 3 worker counts and 2 environment sizes
    for workers, pad in ((1, 0), (8, 3000), (16, 0)):
        env_pad = "x" * pad
        os.environ["C18_PAD"] = env_pad
        recs, errs, rd = sweep(ctx, exe, "selftest-det-%d" % workers, ctx.seed ^ 0xd37, 3600.0, 5,
                               ["--twice", "--max-cands", "0", "--max-workloads", str(max(1, 400 // workers))], workers)
        for r in recs:
            if r.get("t") == "twice":
                total += 1
                same += 1 if r["same"] else 0
            if r.get("t") == "run":
                key = (r["w"], r["s"])
                val = (r["log"], r["sched"], r["csig"], r["clsbits"])
                if key in logs and logs[key] != val:
                    log("MISMATCH across worker counts for workload %s schedule %s" % key)
                    same -= 1
                logs.setdefault(key, val)
    os.environ.pop("C18_PAD", None)
    log("determinism selftest: %d runs executed twice, %d identical; %d distinct (workload, schedule) keys cross-checked" %
        (total, same, len(logs)))
    return 0 if total > 0 and same == total else 2


# --------------------------------------------------------------------------------------------
# C16 (engine added later)
# --------------------------------------------------------------------------------------------

def c16_check(ctx, tier, budget=None, write_evidence=True):
    import c16lib
    return c16lib.check(ctx, tier, budget, write_evidence)


def c16_replay(ctx, path):
    import c16lib
    return c16lib.replay(ctx, path)
