"""C16: Map views over simulated caller-owned storage (see DESIGN.md section 4)."""
import collections
import hashlib
import json
import os
import subprocess
import time

import simlib
from simlib import log

TIERS = {
    "quick": {"budget": 25.0, "variants": ["O1"]},
    "thorough": {"budget": 600.0, "variants": ["O1", "O2A"]},
}


def _sweep(ctx, exe, tag, seed, deadline, extra, workers):
    rd = ctx.rundir(tag)
    cand_dir = os.path.join(rd, "cands")
    os.makedirs(cand_dir)
    procs = []
    for i in range(workers):
        out = open(os.path.join(rd, "w%d.jsonl" % i), "w")
        cmd = [exe, "sweep", str(seed), str(i), str(workers), "%.1f" % deadline, "--cand-dir", cand_dir] + extra
        procs.append((subprocess.Popen(cmd, stdout=out, stderr=subprocess.PIPE, text=True), out))
    errs = []
    for p, out in procs:
        _, err = p.communicate()
        out.close()
        if p.returncode not in (0, 70):
            errs.append("worker exit %d: %s" % (p.returncode, (err or "")[-1500:]))
    recs = []
    for i in range(workers):
        for ln in open(os.path.join(rd, "w%d.jsonl" % i)):
            if ln.startswith("{"):
                try:
                    recs.append(json.loads(ln))
                except Exception:
                    errs.append("unparsable line from worker %d" % i)
    return recs, errs


class Runner:
    def __init__(self, ctx, exe, tag):
        self.exe = exe
        self.tmp = os.path.join(ctx.verif, "build", "run", tag + "-tmp")
        os.makedirs(self.tmp, exist_ok=True)
        self.n = 0

    def exec_plan(self, text):
        self.n += 1
        p = os.path.join(self.tmp, "h%d.plan" % self.n)
        open(p, "w").write(text)
        r = subprocess.run([self.exe, "exec", p], capture_output=True, text=True, timeout=300)
        res = None
        for ln in r.stdout.split("\n"):
            if ln.startswith("{"):
                try:
                    j = json.loads(ln)
                except Exception:
                    continue
                if j.get("t") in ("exec", "hist"):
                    res = j
        try:
            os.unlink(p)
        except OSError:
            pass
        return r.returncode, res, r.stderr


def sig_of(res, syms):
    """class + call + where it landed: what identifies the defect independent of the history around it"""
    if not res or not res.get("viol"):
        return None
    s = {"class": res["cls"], "type": res.get("type"), "call": res.get("call"), "view": res.get("view"), "part": res.get("part", "")}
    if res.get("cls") == "crash":
        s["signal"] = res.get("sig")
        s["align"] = res.get("align")
    st = res.get("store")
    if st:
        fn, loc = syms.funcs([st["pc"]])[0]
        s["store_fn"] = simlib.short_fn(fn)
        s["landed_in"] = st["landed_in"]
    return s


def sig_key(s):
    if s is None:
        return None
    return (s["class"], s.get("call"), s.get("part", ""), s.get("type"))


def compatible(s, target):
    # same violation class through the same call (the type never changes during minimisation)
    return s is not None and s["class"] == target["class"] and s.get("call") == target.get("call") and s.get("part", "") == target.get("part", "")


def split_plan(text):
    head, steps = [], []
    for ln in text.split("\n"):
        if ln.startswith("call ") or ln.startswith("env "):
            steps.append(ln)
        elif ln and ln != "end":
            head.append(ln)
    return head, steps


def join_plan(head, steps):
    return "\n".join(head + steps + ["end"]) + "\n"


def describe(s):
    d = "%s: %s on %s through %s" % (s["class"], s.get("call"), s.get("type"), s.get("view"))
    if s.get("part"):
        d += " (sub-part %s)" % s["part"]
    if s.get("store_fn"):
        d += "; offending store in %s landed in %s" % (s["store_fn"], s.get("landed_in"))
    if s.get("signal"):
        d += "; signal %s (buffer base offset %s scalars)" % (s["signal"], s.get("align"))
    return d


def match_known(known, s):
    import re
    for f in known.get("findings", []):
        if f.get("property") != "C16" or f.get("status") != "known":
            continue
        m = f.get("match", {})
        ok = True
        for k in ("class", "call", "type", "part"):
            if m.get(k) and not re.search(m[k], str(s.get(k, ""))):
                ok = False
        if ok:
            return f
    return None


def process_candidate(ctx, runner, syms, cand_path, variant, known, outdir):
    text = open(cand_path).read()
    rc, res, err = runner.exec_plan(text)
    s0 = sig_of(res, syms)
    if s0 is None:
        return {"status": "machinery", "why": "candidate %s does not reproduce: %s" % (cand_path, (err or "")[-300:])}
    head, steps = split_plan(text)
    budget = [300]

    def test(sub):
        rc, r, _ = runner.exec_plan(join_plan(head, sub))
        return compatible(sig_of(r, syms), s0)

    # everything after the failing step is irrelevant
    if res.get("step", -1) >= 0:
        steps = steps[:res["step"] + 1]
    steps = simlib.ddmin(steps, test, budget)
    # simplify the remaining calls: fresh views, aligned base
    mtext = join_plan(head, steps)
    rc1, r1, _ = runner.exec_plan(mtext)
    rc2, r2, _ = runner.exec_plan(mtext)
    s1, s2 = sig_of(r1, syms), sig_of(r2, syms)
    if not (compatible(s1, s0) and compatible(s2, s0) and json.dumps(r1, sort_keys=True) == json.dumps(r2, sort_keys=True)):
        return {"status": "machinery", "why": "minimised history is not deterministic"}
    os.makedirs(outdir, exist_ok=True)
    hid = hashlib.sha1(mtext.encode()).hexdigest()[:10]
    path = os.path.join(outdir, "C16-%d-%s.json" % (ctx.seed, hid))
    replay = {"property": "C16", "verif_seed": ctx.seed, "variant": variant, "signature": s1, "what": describe(s1),
              "plan": mtext, "steps": steps, "outcome": r1,
              "minimisation": {"steps_before": len(split_plan(text)[1]), "steps_after": len(steps), "execs": 300 - budget[0]}}
    json.dump(replay, open(path, "w"), indent=1)
    kf = match_known(known, s1)
    return {"status": "known" if kf else "violation", "known": kf, "replay": path, "sig": s1, "what": replay["what"]}


def replay(ctx, path):
    rp = json.load(open(path))
    exe = simlib.build_binary(ctx, rp.get("variant", "O1"), "c16sim")
    if not exe:
        return 2
    syms = simlib.Symbols(exe)
    runner = Runner(ctx, exe, "c16-replay")
    rc1, r1, e1 = runner.exec_plan(rp["plan"])
    rc2, r2, e2 = runner.exec_plan(rp["plan"])
    if r1 is None or r2 is None:
        log("replay could not be executed: " + (e1 or e2)[-500:])
        return 2
    if json.dumps(r1, sort_keys=True) != json.dumps(r2, sort_keys=True):
        log("replay is not deterministic")
        return 2
    s1 = sig_of(r1, syms)
    if s1 is None:
        log("replay %s: no violation on this tree" % path)
        return 0
    log("replay %s: %s" % (path, describe(s1)))
    log("  " + json.dumps(r1))
    print("VIOLATION property=C16 replay=%s" % path, flush=True)
    return 1


def check(ctx, tier, budget=None, write_evidence=True):
    T = dict(TIERS[tier])
    if budget is not None:
        T["budget"] = budget
    known = simlib.load_known(ctx)
    t0 = time.time()
    stats = collections.Counter()
    by_call = collections.Counter()
    by_type = collections.Counter()
    viol, known_hits, machinery = [], [], []
    samples = []
    max_ulp = 0
    det = {"checked": 0, "same": 0}
    types = []
    for variant in T["variants"]:
        exe = simlib.build_binary(ctx, variant, "c16sim")
        if not exe:
            return 2
        syms = simlib.Symbols(exe)
        types = json.loads(subprocess.run([exe, "types"], capture_output=True, text=True).stdout)["types"]
        extra = ["--thorough"] if tier == "thorough" else []
        # determinism sample: the same bounded sweep twice must give identical statistics and digests
        a, e1 = _sweep(ctx, exe, "c16-det-a", ctx.seed ^ 0x16d, 3600.0, extra + ["--max-histories", "400", "--max-cands", "0"], ctx.jobs)
        b, e2 = _sweep(ctx, exe, "c16-det-b", ctx.seed ^ 0x16d, 3600.0, extra + ["--max-histories", "400", "--max-cands", "0"], ctx.jobs)
        sa = sorted(json.dumps(r, sort_keys=True) for r in a if r.get("t") == "stats")
        sb = sorted(json.dumps(r, sort_keys=True) for r in b if r.get("t") == "stats")
        det["checked"] += len(sa)
        det["same"] += sum(1 for x, y in zip(sa, sb) if x == y)
        machinery += e1 + e2
        recs, errs = _sweep(ctx, exe, "c16-%s" % variant, ctx.seed, T["budget"] / len(T["variants"]), extra, ctx.jobs)
        machinery += errs
        groups = collections.OrderedDict()
        for r in recs:
            if r.get("t") == "stats":
                for k in ("histories", "nontrivial", "calls", "mutating", "const", "part_calls", "identical_region_calls",
                          "stale_view_calls", "external_overwrite", "repaint_guards", "not_applicable_calls", "intercepted_writes"):
                    stats[k] += r[k]
                max_ulp = max(max_ulp, r["max_ulp_seen"])
                for k, v in r["by_call"].items():
                    by_call[k] += v
            elif r.get("t") == "hist":
                if r.get("viol"):
                    stats["violating_histories"] += 1
                    if r.get("cand"):
                        groups.setdefault(sig_key(sig_of(r, syms)), []).append(r)
                elif len(samples) < 3:
                    samples.append(r)
        runner = Runner(ctx, exe, "c16-%s" % variant)
        for key, rs in list(groups.items())[:8]:
            res = None
            for r in rs[:3]:
                res = process_candidate(ctx, runner, syms, r["cand"], variant, known, os.environ.get("VERIF_REPLAY_DIR") or os.path.join(ctx.verif, "replays"))
                if res["status"] != "machinery":
                    break
            if res["status"] == "machinery":
                machinery.append(res["why"])
            elif res["status"] == "known":
                known_hits.append(res)
            else:
                viol.append(res)
        if stats["violating_histories"] and not groups:
            machinery.append("violating histories without candidate files")
        # sample plans for the evidence file
        if not samples or "plan" not in samples[0]:
            out = []
            for w in (1, 2, 3):
                g = subprocess.run([exe, "gen", str(ctx.seed), str(w)] + extra, capture_output=True, text=True)
                out.append({"seed": ctx.seed, "history": w, "plan": g.stdout})
            samples = out
    wall = time.time() - t0
    if det["checked"] == 0 or det["same"] != det["checked"]:
        machinery.append("determinism sample: %d of %d worker digests identical" % (det["same"], det["checked"]))
    for k in known_hits:
        print("KNOWN-FINDING: property=C16 %s (replay %s)" % (k["known"].get("what", k["what"]), k["replay"]), flush=True)
    for v in viol:
        log("violation: " + v["what"])
        print("VIOLATION property=C16 replay=%s" % v["replay"], flush=True)
    for m in machinery[:10]:
        log("MACHINERY: " + m)
    if write_evidence:
        ev = {
            "property_id": "C16", "tier": tier, "seed": ctx.seed, "level": "exploration", "wall_s": round(wall, 2),
            "violations": len(viol),
            "coverage": {
                "evaluations": stats["histories"],
                "distinct_nontrivial": stats["nontrivial"],
                "rule": ("One evaluation = one seeded history: 2..5 logical clients holding Map<G>/Map<const G>/sub-part views "
                         "(long-lived or fresh) over one simulated caller-owned arena (main element + two tenant elements, guard "
                         "zones, seeded NaN-laden fill, base offset 0..3 scalars) issue up to 24 (quick) / 60 (thorough) "
                         "interleaved calls, with environment perturbations (external overwrite, guard repaint) between calls; "
                         "after every call: intercepted write set within the permitted range, arena outside it bit-identical, "
                         "written range == model, results == value-object results (verbatim or <= 4 ulp). Histories are "
                         "distinct by construction (each carries its own seed and salts); non-trivial = contains at least "
                         "one executed mutating call through a sub-part view, or a call whose source and destination are the "
                         "identical region."),
                "samples": samples,
                "histories_per_hour": round(stats["histories"] / max(wall, 1e-9) * 3600),
                "calls": stats["calls"], "mutating_calls": stats["mutating"], "const_calls": stats["const"],
                "sub_part_calls": stats["part_calls"], "identical_region_calls": stats["identical_region_calls"],
                "intercepted_stores_into_arena": stats["intercepted_writes"],
                "fault_kinds_fired": {"unaligned_base": "every history draws a base offset of 0..3 scalars",
                                      "external_overwrite": stats["external_overwrite"], "repaint_guards": stats["repaint_guards"],
                                      "stale_view_calls": stats["stale_view_calls"]},
                "calls_by_kind": dict(by_call),
                "not_applicable_calls_skipped": stats["not_applicable_calls"],
                "types": [t["name"] for t in types],
                "max_ulp_distance_seen": max_ulp,
                "determinism_sample": det,
                "components": {"real_instrumented": ["smooth headers", "Eigen headers"],
                               "simulated": ["caller-owned storage (arena, guards, tenants)", "logical clients and their call interleaving"],
                               "reference_model": ["value objects of the same group for computed results", "byte copies for verbatim operations", "documented memory layouts for sub-part ranges"]},
                "known_findings_hit": [k["what"] for k in known_hits],
                "machinery_errors": machinery[:5],
            },
            "assumptions": ["the scheduling half of the technique is idle for this property: calls are interleaved at call granularity by a seeded generator; the deciding oracle is the intercepted write set",
                            "calls whose source and destination partially overlap are not generated (identical regions are)",
                            "stores performed inside uninstrumented libc routines are seen only through the wrapped mem* functions"],
        }
        os.makedirs(os.path.join(ctx.verif, "evidence"), exist_ok=True)
        json.dump(ev, open(os.path.join(ctx.verif, "evidence", "C16.json"), "w"), indent=1)
    log("C16: %d histories (%d non-trivial), %d calls (%d mutating, %d sub-part, %d identical-region), %d intercepted stores, "
        "max ulp %d, violating %d, %.0fs" % (stats["histories"], stats["nontrivial"], stats["calls"], stats["mutating"],
                                            stats["part_calls"], stats["identical_region_calls"], stats["intercepted_writes"],
                                            max_ulp, stats["violating_histories"], wall))
    if viol:
        return 1
    if machinery:
        return 2
    return 0
