"""Sensitivity selftest: every patch in /verif/mutants must be caught (m*) or must stay silent (n*).

Each patch is applied to a scratch worktree of the repository outside /repo and /verif, the check
of the property it targets is run against that copy, and the worktree is removed afterwards."""
import json
import os
import shutil
import subprocess
import sys
import time

import simlib
from simlib import log

TARGET = {
    "m01": "C18", "m02": "C18", "m03": "C18", "m04": "C18", "m05": "C18", "m06": "C18", "m07": "C18", "m08": "C18",
    "m09": "C16", "m10": "C16", "m11": "C16", "m12": "C16", "m13": "C16",
    "m14": "C18", "m15": "C18", "m16": "C18", "m17": "C18", "n01": "C18", "n02": "C18", "n03": "C16", "n04": "C18", "n05": "C18",
}
# which operation families to concentrate on (keeps the budget small); None = all
FOCUS = {"m01": "B", "m02": "C", "m03": "C", "m04": "C", "m05": "EF", "m06": "EF", "m07": "F", "m08": "B", "n01": "C", "n02": "EF", "m14": "G", "n04": "G", "m15": "G", "n05": "G", "m16": "A", "m17": "C"}


def check_patch(ctx, patch, prop, family=None, budget=20.0, tier="quick", extra_env=None):
    """apply `patch` to a scratch worktree, run the check of `prop` against it, clean up.
    Returns (exit code, stdout)."""
    scratch = "/tmp/verif-patch-%d" % os.getpid()
    if os.path.exists(scratch):
        subprocess.run(["git", "-C", ctx.repo, "worktree", "remove", "--force", scratch], capture_output=True)
        shutil.rmtree(scratch, ignore_errors=True)
    subprocess.run(["git", "-C", ctx.repo, "worktree", "add", "-q", "--detach", scratch, "HEAD"], check=True)
    try:
        r = subprocess.run(["git", "-C", scratch, "apply", patch], capture_output=True, text=True)
        if r.returncode != 0:
            return 3, "patch does not apply: " + r.stderr
        cmd = [os.path.join(ctx.verif, "bin", "check"), prop, "--tier", tier, "--repo", scratch, "--no-evidence"]
        if budget:
            cmd += ["--budget", str(budget)]
        if family:
            cmd += ["--family", family]
        env = dict(os.environ)
        env["VERIF_REPLAY_DIR"] = os.path.join(ctx.verif, "build", "run", "patch-replays")
        env.update(extra_env or {})
        r = subprocess.run(cmd, capture_output=True, text=True, env=env)
        return r.returncode, r.stdout + r.stderr
    finally:
        subprocess.run(["git", "-C", ctx.repo, "worktree", "remove", "--force", scratch], capture_output=True)
        shutil.rmtree(scratch, ignore_errors=True)
        h = __import__("hashlib").sha1(os.path.realpath(scratch).encode()).hexdigest()[:8]
        for v in ("O1", "O2A"):
            shutil.rmtree(os.path.join(ctx.verif, "build", v + "-" + h), ignore_errors=True)


def run(ctx, only=None, budget=20.0):
    mdir = os.path.join(ctx.verif, "mutants")
    patches = sorted(f for f in os.listdir(mdir) if f.endswith(".patch"))
    results = []
    scratch = "/tmp/verif-sens-%d" % os.getpid()
    ok_all = True
    for pf in patches:
        key = pf[:3]
        if only and key not in only and pf[:-6] not in only:
            continue
        prop = TARGET.get(key)
        if not prop:
            continue
        if os.path.exists(scratch):
            subprocess.run(["git", "-C", ctx.repo, "worktree", "remove", "--force", scratch], capture_output=True)
            shutil.rmtree(scratch, ignore_errors=True)
        subprocess.run(["git", "-C", ctx.repo, "worktree", "add", "-q", "--detach", scratch, "HEAD"], check=True)
        try:
            r = subprocess.run(["git", "-C", scratch, "apply", os.path.join(mdir, pf)], capture_output=True, text=True)
            if r.returncode != 0:
                log("%s: patch does not apply: %s" % (pf, r.stderr[-300:]))
                results.append((pf, "patch-failed"))
                ok_all = False
                continue
            t0 = time.time()
            cmd = [os.path.join(ctx.verif, "bin", "check"), prop, "--tier", "quick", "--repo", scratch, "--no-evidence",
                   "--budget", str(budget)]
            if prop == "C18" and FOCUS.get(key):
                cmd += ["--family", FOCUS[key]]
            env = dict(os.environ)
            env["VERIF_REPLAY_DIR"] = os.path.join(ctx.verif, "build", "run", "sens-replays")
            r = subprocess.run(cmd, capture_output=True, text=True, env=env)
            viol = [ln for ln in r.stdout.split("\n") if ln.startswith("VIOLATION")]
            what = [ln for ln in r.stdout.split("\n") if ln.startswith("violation:")]
            expect_viol = key.startswith("m")
            good = (r.returncode == 1 and viol) if expect_viol else (r.returncode == 0 and not viol)
            status = "caught" if (expect_viol and good) else "silent" if (not expect_viol and good) else \
                ("MISSED" if expect_viol else "FALSE-ALARM") + " (exit %d)" % r.returncode
            log("%-45s %s %-12s %5.0fs  %s" % (pf, prop, status, time.time() - t0, (what[0][:150] if what else "")))
            if not good:
                ok_all = False
                log(r.stdout[-1500:])
            results.append((pf, status))
        finally:
            subprocess.run(["git", "-C", ctx.repo, "worktree", "remove", "--force", scratch], capture_output=True)
            shutil.rmtree(scratch, ignore_errors=True)
            # the scratch build directory goes with it
            for v in ("O1", "O2A"):
                c2 = simlib.Ctx(ctx.verif, scratch, ctx.jobs, ctx.seed)
                # realpath of a removed dir is stable, so bdir() gives the same name
                d = os.path.join(ctx.verif, "build", v + "-" + __import__("hashlib").sha1(os.path.realpath(scratch).encode()).hexdigest()[:8])
                shutil.rmtree(d, ignore_errors=True)
    json.dump(results, open(os.path.join(ctx.verif, "build", "sensitivity.json"), "w"), indent=1)
    return 0 if ok_all else 2


def run_seeded(ctx, only=None):
    """regression over the independently seeded changes in /verif/seeded: each must still be caught"""
    sdir = os.path.join(ctx.verif, "seeded")
    ok_all = True
    results = []
    for d in sorted(os.listdir(sdir)):
        meta_p = os.path.join(sdir, d, "meta.json")
        if not os.path.exists(meta_p):
            continue
        if only and not any(d.startswith(o) for o in only):
            continue
        meta = json.load(open(meta_p))
        t0 = time.time()
        rc, out = check_patch(ctx, os.path.join(sdir, d, "patch.diff"), meta["property"], None, None, "quick")
        what = [ln for ln in out.split("\n") if ln.startswith("violation:")]
        expect_silent = meta.get("expect") == "silent"
        if expect_silent:
            status = "silent" if rc == 0 else "FALSE-ALARM (exit %d)" % rc
        else:
            status = "caught" if rc == 1 else "MISSED (exit %d)" % rc
        log("%-45s %s %-16s %5.0fs  %s" % (d, meta["property"], status, time.time() - t0, what[0][:140] if what else ""))
        if (rc != 0) if expect_silent else (rc != 1):
            ok_all = False
            log(out[-1200:])
        results.append((d, status))
    json.dump(results, open(os.path.join(ctx.verif, "build", "seeded_regression.json"), "w"), indent=1)
    return 0 if ok_all else 2
